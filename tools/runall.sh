#!/bin/bash
# runs every claimed property's quick check without the result cache; prints one line per property
cd /verif
for p in $(python3 -c "import json;print(' '.join(c['property_id'] for c in json.load(open('/verif/MANIFEST.json'))['checks']))"); do
  /verif/bin/gverif check --property $p --nocache | tail -1
done
