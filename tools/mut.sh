#!/bin/bash
# usage: mut.sh <property> <file> <sed-expr> [extra gverif args]
# copies /repo to a scratch dir, applies the sed expression to <file>, runs the check there, removes the copy.
set -u
prop=$1; file=$2; expr=$3; shift 3
d=$(mktemp -d /var/tmp/gvmut-XXXX)
cp -r /repo/. $d/
rm -rf $d/.git
sed -i "$expr" $d/$file
if diff -q /repo/$file $d/$file >/dev/null; then echo "MUTATION DID NOT APPLY"; rm -rf $d; exit 3; fi
diff /repo/$file $d/$file | head -8
(cd $d && GOFLAGS=-mod=mod GOPROXY=off GOSUMDB=off GOTOOLCHAIN=local go build ./... 2>&1 | head -3)
/verif/bin/gverif check --property $prop --repo $d --evidence /dev/null --verif /var/tmp/gvmut-verif "$@" 2>&1 | sed "s#$d#<scratch>#g" | tail -${MUT_TAIL:-12}
rm -rf $d /var/tmp/gvmut-verif
