#!/bin/bash
# usage: seedtest.sh <property> <seed-dir> [confirm]
# <seed-dir> holds patch.diff, demo_test.go, meta.json. With "confirm": first confirm in a scratch worktree that the
# change compiles, the existing suite passes, the demo fails with it and passes without it. Then applies the patch to
# /repo, runs the property's quick check (evidence not overwritten), and undoes the patch.
set -u
export GOFLAGS=-mod=mod GOPROXY=off GOSUMDB=off GOTOOLCHAIN=local
prop=$1; dir=$2; mode=${3:-}
if [ "$mode" = confirm ]; then
  w=$(mktemp -d /var/tmp/seedw-XXXX); rmdir $w
  git -C /repo worktree add -q --detach $w HEAD || exit 2
  cp $dir/demo_test.go $w/zz_seed_demo_test.go
  (cd $w && timeout 300 go test -vet=off -count=1 -run 'Seed|Demo|Test.*' -timeout 120s . >/tmp/seed_without.log 2>&1; echo "demo WITHOUT change: exit=$? (want 0)")
  (cd $w && git apply $dir/patch.diff && echo "patch applies") || { echo "PATCH DOES NOT APPLY"; git -C /repo worktree remove --force $w; exit 2; }
  (cd $w && go build ./... && echo "builds")
  (cd $w && timeout 300 go test -vet=off -count=1 -timeout 120s -run "$(grep -o 'func Test[A-Za-z0-9_]*' zz_seed_demo_test.go | sed 's/func //' | paste -sd'|')" . >/tmp/seed_with.log 2>&1; echo "demo WITH change: exit=$? (want non-zero)")
  rm $w/zz_seed_demo_test.go
  (cd $w && timeout 900 go test -vet=off -count=1 ./... 2>&1 | grep -v '^table:' | grep "gopher-lua	\|FAIL" | head -3)
  git -C /repo worktree remove --force $w
fi
if [ -n "$(git -C /repo status --porcelain)" ]; then echo "REFUSING: /repo has uncommitted changes (commit them first)"; exit 2; fi
git -C /repo apply $dir/patch.diff || { echo "cannot apply to /repo"; exit 2; }
/verif/bin/gverif check --property $prop --evidence /var/tmp/seed-evidence.json --verif /var/tmp/seed-verif 2>&1 | sed 's#/var/tmp/seed-verif/replay/[A-Z0-9]*/##' | cut -c1-220 | tail -8
git -C /repo apply -R $dir/patch.diff || git -C /repo checkout -- .
rm -rf /var/tmp/seed-verif /var/tmp/seed-evidence.json
