#!/usr/bin/env python3
# Regenerates /verif/MANIFEST.json from the table below (keeps it valid at all times).
import json,subprocess
claims = json.load(open('/verif/tools/claims.json'))
props=[json.loads(l) for l in open('/verif/properties.jsonl')]
commits=subprocess.check_output(['git','-C','/repo','log','--format=%H %s']).decode().strip().split('\n')
hooks=[c.split()[0] for c in commits if c.split(' ',1)[1].startswith('verif:')]
m={
 "version":1,
 "setup_cmd":"cd /verif/engine && GOFLAGS=-mod=mod GOPROXY=off GOSUMDB=off GOTOOLCHAIN=local go build -o /verif/bin/gverif .",
 "hooks":{"guard":"verif",
  "enable":"gverif loads /repo with -tags=verif; the hook files are contracts_verif*.go (comment-only, //go:build verif), so the compiled package is identical with the tag on or off",
  "baseline_off_cmd":"cd /repo && GOFLAGS=-mod=mod GOPROXY=off GOSUMDB=off go test -vet=off -count=1 -timeout 25m ./...",
  "source_commits":hooks,"add_only":True},
 "engines":[{"name":"gverif","path":"/verif/engine","serves_properties":sorted(claims['claimed'].keys()),
   "kind_free_text":"contract-based deductive verifier for Go written for this task: contracts as //@ comments in /repo (tag verif), go/ssa -> verification conditions -> z3 4.8.12 / z3 5.1.0 / cvc5 1.0.3"}],
 "checks":[], "not_applicable":[],
 "notes":"Every check is the same engine run on the obligations tagged with the property. Kernel-only claims: DESIGN.md part A.2 (as built) and section 8 name, per property, which functions are under contract and what is not covered."
}
for p in props:
    pid=p['id']
    if pid in claims['claimed']:
        c=claims['claimed'][pid]
        m['checks'].append({
         "property_id":pid,
         "quick_cmd":"/verif/bin/gverif check --property %s --tier quick"%pid,
         "thorough_cmd":"/verif/bin/gverif check --property %s --tier thorough"%pid,
         "evidence_file":"/verif/evidence/%s.json"%pid,
         "replay_cmd_template":"/verif/bin/gverif replay {path}",
         "engine":"gverif",
         "level_claimed":{"category":"proof","text":c['text'],"design_ref":"DESIGN.md part A.2 (as built) and §8 "+pid},
         "level_note":c.get('note',"Trusted: go/ssa front end, the VC generator in /verif/engine, SMT solvers (unsat answers), assumed/trusted contracts listed in the evidence file; int/int64 arithmetic mathematical (no overflow), narrower types exact."),
         "technique":"contract-based deductive verification of the real code (own VC generator over go/ssa; z3/cvc5)"})
    else:
        m['not_applicable'].append({"property_id":pid,"reason":claims['na'].get(pid,"kernel designed in DESIGN.md §8 but not built; not claimed")})
json.dump(m,open('/verif/MANIFEST.json','w'),indent=1)
print("claimed",sorted(claims['claimed'].keys()))
