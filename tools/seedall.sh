#!/bin/bash
# usage: seedall.sh [seed-name-glob]
# For every /verif/seeded/<name>/: copies /repo to a scratch directory, applies patch.diff there, runs the quick check of the
# seed's property (meta.json .property) on the copy, and records which obligations fail in /verif/seeded/RESULTS.tsv.
# (tools/seedtest.sh does the same on /repo itself, temporarily.)
set -u
export GOFLAGS=-mod=mod GOPROXY=off GOSUMDB=off GOTOOLCHAIN=local
glob=${1:-*}
out=/verif/seeded/RESULTS.tsv
tmp=$(mktemp /var/tmp/seedres-XXXX)
for dir in /verif/seeded/$glob/; do
  [ -f $dir/patch.diff ] || continue
  name=$(basename $dir)
  prop=$(jq -r .property $dir/meta.json)
  d=$(mktemp -d /var/tmp/seedall-XXXX)
  cp -r /repo/. $d/ && rm -rf $d/.git
  if ! (cd $d && patch -s -p1 < $dir/patch.diff); then echo -e "$name\t$prop\tPATCH-FAILS\t" >> $tmp; rm -rf $d; continue; fi
  res=$(/verif/bin/gverif check --property $prop --repo $d --evidence /dev/null --verif $d/.verif 2>&1)
  viol=$(echo "$res" | grep '^VIOLATION' | sed -E 's#^VIOLATION property=[A-Z0-9]+ replay=[^ ]*/([^/ ]+)\.txt$#\1 [failing input replayed on the real code]#; s/.*obligation=//; s/ no-failing-input-found//' | head -4 | paste -sd';')
  n=$(echo "$res" | grep -c '^VIOLATION')
  if [ $n -gt 0 ]; then echo -e "$name\t$prop\tdetected($n)\t$viol" >> $tmp; else echo -e "$name\t$prop\tMISSED\t$(echo "$res" | tail -1)" >> $tmp; fi
  rm -rf $d
  tail -1 $tmp | cut -c1-200
done
if [ "$glob" = "*" ]; then mv $tmp $out; else cat $tmp; rm -f $tmp; fi
