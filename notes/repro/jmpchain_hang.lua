local i = 0
local log = {}
if i == 0 then i = 0 end
if i == 0 then i = 0 end
do
  ::a::
  while false do end
  i = i + 1
  log[#log+1] = i
  if i > 10 then error("runaway") end
  if i < 3 then goto a end
end
print("i=", i, #log)
