local keep
local function f()
  local x = 1
  keep = function() return x end
  error("boom")
end
print(xpcall(f, function(m) return m end))
local function g(a, b, c, d, e) local p, q, r, s = 11, 12, 13, 14 return a end
g(100, 200, 300, 400, 500)
print("keep() =", keep())
local keep2
local function f2()
  local x = 1
  keep2 = function() return x end
  error("boom")
end
print(pcall(f2))
g(100, 200, 300, 400, 500)
print("keep2() =", keep2())
