package main

// Spec expression -> SMT translation.

import (
	"fmt"
	"go/constant"
	"go/token"
	"go/types"
	"math/big"
	"strings"

	"golang.org/x/tools/go/ssa"
)

type tv struct {
	sym Sym
	typ types.Type
}

type Scope struct {
	vc          *VC
	vars        map[string]tv
	cur, old    *State
	results     []tv
	resultNames []string
	resolver    func(name string) (tv, bool)
	depth       int
	qctr        *int
}

func (vc *VC) newScope(cur, old *State) *Scope {
	return &Scope{vc: vc, vars: map[string]tv{}, cur: cur, old: old}
}

func (sc *Scope) child() *Scope {
	n := *sc
	n.vars = make(map[string]tv, len(sc.vars)+2)
	for k, v := range sc.vars {
		n.vars[k] = v
	}
	return &n
}

var tInt = types.Typ[types.Int]
var tBool = types.Typ[types.Bool]
var tString = types.Typ[types.String]
var tFloat = types.Typ[types.Float64]
var tNil = types.Typ[types.UntypedNil]

func (sc *Scope) evalBool(e *Expr) (t Term, err error) {
	defer func() {
		if r := recover(); r != nil {
			if u, ok := r.(unsupported); ok {
				err = fmt.Errorf("spec %q: %s", e.String(), u.msg)
				return
			}
			panic(r)
		}
	}()
	v, err := sc.eval(e)
	if err != nil {
		return "", err
	}
	s, ok := v.sym.(sv)
	if !ok || sc.vc.eng.sortOf(v.typ) != "Bool" {
		return "", fmt.Errorf("spec %q is not boolean", e.String())
	}
	return s.t, nil
}

func (sc *Scope) evalTerm(e *Expr) (t Term, err error) {
	defer func() {
		if r := recover(); r != nil {
			if u, ok := r.(unsupported); ok {
				err = fmt.Errorf("spec %q: %s", e.String(), u.msg)
				return
			}
			panic(r)
		}
	}()
	v, err := sc.eval(e)
	if err != nil {
		return "", err
	}
	s, ok := v.sym.(sv)
	if !ok {
		return "", fmt.Errorf("spec %q is not a scalar", e.String())
	}
	return s.t, nil
}

func (sc *Scope) eval(e *Expr) (tv, error) {
	vc := sc.vc
	eng := vc.eng
	errf := func(format string, a ...interface{}) (tv, error) {
		return tv{}, fmt.Errorf("spec %q: %s", e.String(), fmt.Sprintf(format, a...))
	}
	switch e.Op {
	case "int":
		return tv{sv{intLit(e.Int)}, types.Typ[types.UntypedInt]}, nil
	case "str":
		return tv{sv{vc.strLit(e.Str)}, tString}, nil
	case "true", "false":
		return tv{sv{e.Op}, tBool}, nil
	case "nil":
		return tv{sv{"0"}, tNil}, nil
	case "result":
		i := 0
		if e.Name != "" {
			i = int(e.Name[0] - '0')
		}
		if i >= len(sc.results) {
			return errf("no result %d here", i)
		}
		return sc.results[i], nil
	case "id":
		if sc.resolver != nil {
			if v, ok := sc.resolver(e.Name); ok {
				return v, nil
			}
		}
		if v, ok := sc.vars[e.Name]; ok {
			return v, nil
		}
		if v, ok := vc.ghosts[e.Name]; ok {
			return v, nil
		}
		if a, ok := vc.freeCells[e.Name]; ok && sc.depth == 0 {
			return tv{vc.load(sc.cur, a), a.typ}, nil
		}
		for i, n := range sc.resultNames {
			if n == e.Name && n != "" && i < len(sc.results) {
				return sc.results[i], nil
			}
		}
		if v, ok := sc.pkgIdent(e.Name); ok {
			return v, nil
		}
		if d, ok := eng.db.Defines[e.Name]; ok && len(d.Params) == 0 {
			return sc.expandDefine(d, nil, e)
		}
		return errf("unknown name %s", e.Name)
	case "old":
		n := sc.child()
		n.cur = sc.old
		n.resolver = nil // inside old(), names denote the entry values of the parameters
		return n.eval(e.Args[0])
	case "ite":
		c, err := sc.evalBool(e.Args[0])
		if err != nil {
			return tv{}, err
		}
		a, err := sc.eval(e.Args[1])
		if err != nil {
			return tv{}, err
		}
		b, err := sc.eval(e.Args[2])
		if err != nil {
			return tv{}, err
		}
		a, b = sc.unify(a, b)
		// a nil branch takes the type (and the nil representation) of the other branch: the result must not be nil-typed,
		// or a comparison with it would degenerate into a comparison with nil
		nilOf := func(t types.Type) tv {
			if eng.sortOf(t) == "LV" {
				return tv{sv{"GoNil"}, t}
			}
			return tv{sv{"0"}, t}
		}
		if a.typ == tNil && b.typ != tNil {
			if _, isS := b.sym.(sv); isS {
				a = nilOf(b.typ)
			}
		} else if b.typ == tNil && a.typ != tNil {
			if _, isS := a.sym.(sv); isS {
				b = nilOf(a.typ)
			}
		}
		at, ok1 := a.sym.(sv)
		bt, ok2 := b.sym.(sv)
		if !ok1 || !ok2 {
			return errf("ite over composite values")
		}
		return tv{sv{fmt.Sprintf("(ite %s %s %s)", c, at.t, bt.t)}, a.typ}, nil
	case "forall", "exists":
		n := sc.child()
		var binders []string
		var guards []Term
		for _, b := range e.Vars {
			t := eng.typeByText(b.Type)
			if t == nil {
				return errf("unknown type %s", b.Type)
			}
			sort := eng.sortOf(t)
			if sort == "" {
				return errf("quantifier over composite type %s", b.Type)
			}
			vc.uniq++
			name := fmt.Sprintf("q_%s_%d", sanitize(b.Name), vc.uniq)
			binders = append(binders, fmt.Sprintf("(%s %s)", name, sort))
			n.vars[b.Name] = tv{sv{name}, t}
			if _, _, isInt := intInfo(t); isInt && sort == "Int" {
				if bits, signed, _ := intInfo(t); !(bits == 64 && signed) {
					guards = append(guards, rangeFact(t, name))
				}
			}
		}
		body, err := n.evalBool(e.Args[0])
		if err != nil {
			return tv{}, err
		}
		// trigger hygiene: array cells are addressed as (+ OFFSET q) where OFFSET is the (symbolic) offset of a slice
		// header; e-matching cannot match arithmetic, so the bound variable is shifted: q' = OFFSET + q
		for bi, b := range e.Vars {
			if v, ok := n.vars[b.Name]; ok {
				if qs, isS := v.sym.(sv); isS {
					if nb, shifted := shiftBinder(body, qs.t); shifted {
						body = nb
						_ = bi
					}
				}
			}
		}
		if len(guards) > 0 {
			if e.Op == "forall" {
				body = fmt.Sprintf("(=> %s %s)", and(guards...), body)
			} else {
				body = and(append(guards, body)...)
			}
		}
		return tv{sv{fmt.Sprintf("(%s (%s) %s)", e.Op, strings.Join(binders, " "), body)}, tBool}, nil
	case "un!":
		t, err := sc.evalBool(e.Args[0])
		if err != nil {
			return tv{}, err
		}
		return tv{sv{not(t)}, tBool}, nil
	case "un-":
		a, err := sc.eval(e.Args[0])
		if err != nil {
			return tv{}, err
		}
		s, ok := a.sym.(sv)
		if !ok {
			return errf("negation of composite")
		}
		if eng.sortOf(a.typ) == "F64" {
			return tv{sv{fmt.Sprintf("(fneg %s)", s.t)}, a.typ}, nil
		}
		if v, ok := bigConst(s.t); ok {
			return tv{sv{intLit(new(big.Int).Neg(v))}, a.typ}, nil
		}
		return tv{sv{fmt.Sprintf("(- %s)", s.t)}, a.typ}, nil
	case "un&":
		a, err := sc.eval(e.Args[0])
		if err != nil {
			return tv{}, err
		}
		if _, ok := a.typ.Underlying().(*types.Pointer); ok && e.Args[0].Op == "index" {
			return a, nil
		}
		return errf("& is only supported on elements of struct slices")
	case "&&", "||", "==>", "<==>":
		a, err := sc.evalBool(e.Args[0])
		if err != nil {
			return tv{}, err
		}
		b, err := sc.evalBool(e.Args[1])
		if err != nil {
			return tv{}, err
		}
		switch e.Op {
		case "&&":
			return tv{sv{and(a, b)}, tBool}, nil
		case "||":
			return tv{sv{or(a, b)}, tBool}, nil
		case "==>":
			return tv{sv{fmt.Sprintf("(=> %s %s)", a, b)}, tBool}, nil
		default:
			return tv{sv{fmt.Sprintf("(= %s %s)", a, b)}, tBool}, nil
		}
	case "==", "!=", "<", "<=", ">", ">=":
		a, err := sc.eval(e.Args[0])
		if err != nil {
			return tv{}, err
		}
		b, err := sc.eval(e.Args[1])
		if err != nil {
			return tv{}, err
		}
		t, err := sc.compare(e.Op, a, b)
		if err != nil {
			return errf("%v", err)
		}
		return tv{sv{t}, tBool}, nil
	case "+", "-", "*", "/", "%", "&", "|", "<<", ">>", "&^", "^":
		a, err := sc.eval(e.Args[0])
		if err != nil {
			return tv{}, err
		}
		b, err := sc.eval(e.Args[1])
		if err != nil {
			return tv{}, err
		}
		a, b = sc.unify(a, b)
		as, ok1 := a.sym.(sv)
		bs, ok2 := b.sym.(sv)
		if !ok1 || !ok2 {
			return errf("arithmetic on composite values")
		}
		switch eng.sortOf(a.typ) {
		case "F64":
			o := map[string]string{"+": "fadd", "-": "fsub", "*": "fmul", "/": "fdiv"}[e.Op]
			if o == "" {
				return errf("float operator %s", e.Op)
			}
			return tv{sv{fmt.Sprintf("(%s %s %s)", o, as.t, bs.t)}, a.typ}, nil
		case "Str":
			if e.Op == "+" {
				return tv{sv{fmt.Sprintf("(sconcat %s %s)", as.t, bs.t)}, a.typ}, nil
			}
			return errf("string operator %s", e.Op)
		}
		var t Term
		switch e.Op {
		case "+":
			t = fmt.Sprintf("(+ %s %s)", as.t, bs.t)
		case "-":
			t = fmt.Sprintf("(- %s %s)", as.t, bs.t)
		case "*":
			t = fmt.Sprintf("(* %s %s)", as.t, bs.t)
		case "/":
			t = quoTerm(as.t, bs.t)
		case "%":
			t = remTerm(as.t, bs.t)
		case "&":
			t = bitAnd(as.t, bs.t)
		case "|":
			t = bitOr(as.t, bs.t)
		case "^":
			t = fmt.Sprintf("(bitxor %s %s)", as.t, bs.t)
		case "&^":
			t = fmt.Sprintf("(- %s %s)", as.t, bitAnd(as.t, bs.t))
		case "<<":
			if n, ok := smallConst(bs.t); ok {
				t = fmt.Sprintf("(* %s %s)", as.t, pow2(n))
			} else {
				t = fmt.Sprintf("(shl %s %s)", as.t, bs.t)
			}
		case ">>":
			if n, ok := smallConst(bs.t); ok {
				t = fmt.Sprintf("(div %s %s)", as.t, pow2(n))
			} else {
				t = fmt.Sprintf("(shr %s %s)", as.t, bs.t)
			}
		}
		rt := a.typ
		if isUntyped(rt) {
			rt = b.typ
		}
		return tv{sv{t}, rt}, nil
	case "field":
		// package-qualified constant?  pm.EOS
		if e.Args[0].Op == "id" {
			if _, isVar := sc.vars[e.Args[0].Name]; !isVar {
				if p := eng.pkgByName(e.Args[0].Name); p != nil {
					if v, ok := sc.identIn(p, e.Name); ok {
						return v, nil
					}
				}
			}
		}
		a, err := sc.eval(e.Args[0])
		if err != nil {
			return tv{}, err
		}
		return sc.field(a, e.Name, e)
	case "index":
		a, err := sc.eval(e.Args[0])
		if err != nil {
			return tv{}, err
		}
		i, err := sc.eval(e.Args[1])
		if err != nil {
			return tv{}, err
		}
		return sc.index(a, i, e)
	case "slice":
		a, err := sc.eval(e.Args[0])
		if err != nil {
			return tv{}, err
		}
		lo, hi := Term("0"), Term("")
		if e.Args[1] != nil {
			l, err := sc.evalTerm(e.Args[1])
			if err != nil {
				return tv{}, err
			}
			lo = l
		}
		if e.Args[2] != nil {
			h, err := sc.evalTerm(e.Args[2])
			if err != nil {
				return tv{}, err
			}
			hi = h
		}
		switch s := a.sym.(type) {
		case sv:
			if eng.sortOf(a.typ) == "Str" {
				if hi == "" {
					hi = fmt.Sprintf("(slen %s)", s.t)
				}
				return tv{sv{fmt.Sprintf("(substr %s %s %s)", s.t, lo, hi)}, a.typ}, nil
			}
		case slv:
			if hi == "" {
				hi = s.ln
			}
			return tv{slv{s.arr, addT(s.off, lo), fmt.Sprintf("(- %s %s)", hi, lo), fmt.Sprintf("(- %s %s)", s.cp, lo)}, a.typ}, nil
		}
		return errf("slice expression on %s", typeStr(a.typ))
	case "call":
		return sc.callExpr(e)
	case "mcall":
		return sc.methodCall(e)
	}
	return errf("unsupported spec operator %s", e.Op)
}

// shiftBinder rewrites body so that every occurrence (+ T q) (T free of q, the same T everywhere) becomes q, and
// every other occurrence of q becomes (- q T). The quantified formula keeps its meaning (q ranges over all integers).
func shiftBinder(body string, q string) (string, bool) {
	var offTerm string
	search := 0
	for {
		i := strings.Index(body[search:], "(+ ")
		if i < 0 {
			break
		}
		i += search
		// parse T starting at i+3
		j := i + 3
		depth := 0
		k := j
		for k < len(body) {
			c := body[k]
			if c == '(' {
				depth++
			} else if c == ')' {
				if depth == 0 {
					break
				}
				depth--
			} else if c == ' ' && depth == 0 {
				break
			}
			k++
		}
		if k < len(body) && body[k] == ' ' && strings.HasPrefix(body[k+1:], q+")") {
			t := body[j:k]
			if !containsToken(t, q) && !isAtomNumeral(t) {
				if offTerm == "" {
					offTerm = t
				} else if offTerm != t {
					return body, false
				}
			}
		}
		search = i + 3
	}
	if offTerm == "" {
		return body, false
	}
	marker := "\x00SHIFTED\x00"
	nb := strings.ReplaceAll(body, "(+ "+offTerm+" "+q+")", marker)
	nb = replaceToken(nb, q, "(- "+q+" "+offTerm+")")
	nb = strings.ReplaceAll(nb, marker, q)
	return nb, true
}

func isAtomNumeral(t string) bool {
	for _, c := range t {
		if c < '0' || c > '9' {
			return false
		}
	}
	return t != ""
}

func isTokChar(c byte) bool {
	return c == '_' || c == '!' || c == '.' || (c >= 'a' && c <= 'z') || (c >= 'A' && c <= 'Z') || (c >= '0' && c <= '9')
}

func containsToken(s, tok string) bool {
	i := 0
	for {
		j := strings.Index(s[i:], tok)
		if j < 0 {
			return false
		}
		j += i
		before := j == 0 || !isTokChar(s[j-1])
		after := j+len(tok) >= len(s) || !isTokChar(s[j+len(tok)])
		if before && after {
			return true
		}
		i = j + len(tok)
	}
}

func replaceToken(s, tok, repl string) string {
	var sb strings.Builder
	i := 0
	for {
		j := strings.Index(s[i:], tok)
		if j < 0 {
			sb.WriteString(s[i:])
			return sb.String()
		}
		j += i
		before := j == 0 || !isTokChar(s[j-1])
		after := j+len(tok) >= len(s) || !isTokChar(s[j+len(tok)])
		sb.WriteString(s[i:j])
		if before && after {
			sb.WriteString(repl)
		} else {
			sb.WriteString(tok)
		}
		i = j + len(tok)
	}
}

func isUntyped(t types.Type) bool {
	b, ok := t.(*types.Basic)
	return ok && b.Info()&types.IsUntyped != 0
}

// unify converts untyped int literals to float when the other side is a float.
func (sc *Scope) unify(a, b tv) (tv, tv) {
	eng := sc.vc.eng
	if eng.sortOf(a.typ) == "F64" && isUntyped(b.typ) {
		if s, ok := b.sym.(sv); ok {
			if v, ok2 := bigConst(s.t); ok2 {
				f, _ := new(big.Float).SetInt(v).Float64()
				return a, tv{sv{sc.vc.f64Lit(f)}, a.typ}
			}
		}
	}
	if eng.sortOf(b.typ) == "F64" && isUntyped(a.typ) {
		if s, ok := a.sym.(sv); ok {
			if v, ok2 := bigConst(s.t); ok2 {
				f, _ := new(big.Float).SetInt(v).Float64()
				return tv{sv{sc.vc.f64Lit(f)}, b.typ}, b
			}
		}
	}
	return a, b
}

func (sc *Scope) compare(op string, a, b tv) (Term, error) {
	eng := sc.vc.eng
	a, b = sc.unify(a, b)
	// nil comparisons
	if a.typ == tNil {
		a, b = b, a
	}
	if b.typ == tNil {
		var t Term
		switch s := a.sym.(type) {
		case slv:
			t = fmt.Sprintf("(= %s 0)", s.arr)
		case sv:
			if eng.sortOf(a.typ) == "LV" {
				t = fmt.Sprintf("(= %s GoNil)", s.t)
			} else {
				t = fmt.Sprintf("(= %s 0)", s.t)
			}
		case adv:
			t = "false"
		default:
			return "", fmt.Errorf("nil comparison on %T", a.sym)
		}
		switch op {
		case "==":
			return t, nil
		case "!=":
			return not(t), nil
		}
		return "", fmt.Errorf("ordering comparison with nil")
	}
	if as, ok := a.sym.(slv); ok {
		bs, ok2 := b.sym.(slv)
		if !ok2 || (op != "==" && op != "!=") {
			return "", fmt.Errorf("slices can only be compared for identity")
		}
		t := fmt.Sprintf("(and (= %s %s) (= %s %s) (= %s %s) (= %s %s))", as.arr, bs.arr, as.off, bs.off, as.ln, bs.ln, as.cp, bs.cp)
		if op == "!=" {
			t = not(t)
		}
		return t, nil
	}
	if aa, ok := a.sym.(adv); ok {
		ba, ok2 := b.sym.(adv)
		if !ok2 || aa.base != ba.base || len(aa.idx) != len(ba.idx) || (op != "==" && op != "!=") {
			return "", fmt.Errorf("address comparison")
		}
		var parts []Term
		for i := range aa.idx {
			parts = append(parts, fmt.Sprintf("(= %s %s)", aa.idx[i], ba.idx[i]))
		}
		t := and(parts...)
		if op == "!=" {
			t = not(t)
		}
		return t, nil
	}
	as, ok1 := a.sym.(sv)
	bs, ok2 := b.sym.(sv)
	if !ok1 || !ok2 {
		return "", fmt.Errorf("comparison of composite values")
	}
	sa := eng.sortOf(a.typ)
	sb := eng.sortOf(b.typ)
	// an LValue compared with a concrete value type (go-inline copies bind `vali := v` with v a *LTable, LNumber, ...):
	// the concrete value is converted to the interface value, as the Go assignment does
	box := func(x sv, t types.Type) (sv, bool) {
		switch namedNameBare(derefT(t)) {
		case "LTable":
			return sv{fmt.Sprintf("(LTabV %s)", x.t)}, true
		case "LFunction":
			return sv{fmt.Sprintf("(LFnV %s)", x.t)}, true
		case "LUserData":
			return sv{fmt.Sprintf("(LUdV %s)", x.t)}, true
		case "LState":
			return sv{fmt.Sprintf("(LThV %s)", x.t)}, true
		case "LNumber":
			return sv{fmt.Sprintf("(LNumV %s)", x.t)}, true
		case "LString":
			return sv{fmt.Sprintf("(LStrV %s)", x.t)}, true
		case "LBool":
			return sv{fmt.Sprintf("(LBoolV %s)", x.t)}, true
		}
		return x, false
	}
	if sa == "LV" && sb != "LV" {
		if nb, ok := box(bs, b.typ); ok {
			bs, sb = nb, "LV"
		}
	} else if sb == "LV" && sa != "LV" {
		if na, ok := box(as, a.typ); ok {
			as, sa = na, "LV"
		}
	}
	if sa != sb {
		return "", fmt.Errorf("comparison of %s with %s", typeStr(a.typ), typeStr(b.typ))
	}
	switch sa {
	case "F64":
		o := map[string]string{"==": "feq", "<": "flt", "<=": "fle", ">": "fgt", ">=": "fge"}[op]
		if op == "!=" {
			return fmt.Sprintf("(not (feq %s %s))", as.t, bs.t), nil
		}
		return fmt.Sprintf("(%s %s %s)", o, as.t, bs.t), nil
	case "Int":
		o := map[string]string{"==": "=", "<": "<", "<=": "<=", ">": ">", ">=": ">="}[op]
		if op == "!=" {
			return fmt.Sprintf("(not (= %s %s))", as.t, bs.t), nil
		}
		return fmt.Sprintf("(%s %s %s)", o, as.t, bs.t), nil
	case "Str":
		switch op {
		case "==":
			return fmt.Sprintf("(= %s %s)", as.t, bs.t), nil
		case "!=":
			return fmt.Sprintf("(not (= %s %s))", as.t, bs.t), nil
		case "<":
			return fmt.Sprintf("(slt %s %s)", as.t, bs.t), nil
		case ">":
			return fmt.Sprintf("(slt %s %s)", bs.t, as.t), nil
		case "<=":
			return fmt.Sprintf("(not (slt %s %s))", bs.t, as.t), nil
		case ">=":
			return fmt.Sprintf("(not (slt %s %s))", as.t, bs.t), nil
		}
	default:
		switch op {
		case "==":
			return fmt.Sprintf("(= %s %s)", as.t, bs.t), nil
		case "!=":
			return fmt.Sprintf("(not (= %s %s))", as.t, bs.t), nil
		}
	}
	return "", fmt.Errorf("operator %s on %s", op, typeStr(a.typ))
}

func (sc *Scope) field(a tv, name string, e *Expr) (tv, error) {
	vc := sc.vc
	st, et, ok := structOf(a.typ)
	if !ok {
		return tv{}, fmt.Errorf("spec %q: %s has no fields", e.String(), typeStr(a.typ))
	}
	fi := fieldIndex(st, name)
	if fi < 0 {
		// promoted field through embedded struct
		for i := 0; i < st.NumFields(); i++ {
			if st.Field(i).Embedded() {
				inner, err := sc.field(a, st.Field(i).Name(), e)
				if err == nil {
					if r, err2 := sc.field(inner, name, e); err2 == nil {
						return r, nil
					}
				}
			}
		}
		return tv{}, fmt.Errorf("spec %q: no field %s in %s", e.String(), name, typeStr(et))
	}
	ft := st.Field(fi).Type()
	switch s := a.sym.(type) {
	case sv: // pointer
		ad := adv{"F:" + structName(et) + "." + name, []Term{s.t}, ft}
		if at, isArr := ft.Underlying().(*types.Array); isArr {
			return tv{arrPtr{vc.inlineArr(ad), fmt.Sprint(at.Len()), at.Elem()}, ft}, nil
		}
		return tv{vc.load(sc.cur, ad), ft}, nil
	case stv:
		return tv{s.fields[fi], ft}, nil
	}
	return tv{}, fmt.Errorf("spec %q: field access on %T", e.String(), a.sym)
}

func (sc *Scope) index(a, i tv, e *Expr) (tv, error) {
	vc := sc.vc
	eng := vc.eng
	is, ok := i.sym.(sv)
	if !ok {
		return tv{}, fmt.Errorf("spec %q: composite index", e.String())
	}
	switch s := a.sym.(type) {
	case slv:
		et := a.typ.Underlying().(*types.Slice).Elem()
		return sc.elemAt(s.arr, addT(s.off, is.t), et), nil
	case arrPtr:
		return sc.elemAt(s.arr, is.t, s.elem), nil
	case sv:
		switch u := a.typ.Underlying().(type) {
		case *types.Basic:
			if eng.sortOf(a.typ) == "Str" {
				return tv{sv{fmt.Sprintf("(sbyte %s %s)", s.t, is.t)}, types.Typ[types.Uint8]}, nil
			}
		case *types.Map:
			mk := (&frame{vc: vc}).mapKeys(u)
			has := fmt.Sprintf("(and (not (= %s 0)) (select (select %s %s) %s))", s.t, vc.heapGet(sc.cur, mk.has, mk.hasSort), s.t, is.t)
			val := fmt.Sprintf("(select (select %s %s) %s)", vc.heapGet(sc.cur, mk.val, mk.valSort), s.t, is.t)
			z := vc.scalar(vc.zero(u.Elem()))
			return tv{sv{fmt.Sprintf("(ite %s %s %s)", has, val, z)}, u.Elem()}, nil
		}
	}
	return tv{}, fmt.Errorf("spec %q: cannot index %s", e.String(), typeStr(a.typ))
}

func (sc *Scope) elemAt(arr, abs Term, et types.Type) tv {
	vc := sc.vc
	if _, ok := isStruct(et); ok {
		return tv{sv{fmt.Sprintf("(elemref %s %s)", arr, abs)}, types.NewPointer(et)}
	}
	return tv{vc.load(sc.cur, adv{"E:" + typeStr(et), []Term{arr, abs}, et}), et}
}

func (sc *Scope) pkgIdent(name string) (tv, bool) {
	eng := sc.vc.eng
	for _, p := range eng.pkgOrder(sc.vc) {
		if v, ok := sc.identIn(p, name); ok {
			return v, true
		}
	}
	return tv{}, false
}

func (sc *Scope) identIn(p *ssa.Package, name string) (tv, bool) {
	vc := sc.vc
	obj := p.Pkg.Scope().Lookup(name)
	switch o := obj.(type) {
	case *types.Const:
		c := ssa.NewConst(o.Val(), o.Type())
		if o.Val().Kind() == constant.Int && isUntyped(o.Type()) {
			bi, _ := new(big.Int).SetString(o.Val().ExactString(), 10)
			return tv{sv{intLit(bi)}, types.Typ[types.UntypedInt]}, true
		}
		return tv{vc.constSym(c), o.Type()}, true
	case *types.Var:
		g, ok := p.Members[name].(*ssa.Global)
		if !ok {
			return tv{}, false
		}
		a := vc.globalAddr(g).(adv)
		if a.base == "G:LTrue" || a.base == "G:LFalse" {
			// in specs LTrue/LFalse denote the LValue
			return tv{sv{map[string]string{"G:LTrue": "(LBoolV true)", "G:LFalse": "(LBoolV false)"}[a.base]}, sc.vc.eng.typeByText("LValue")}, true
		}
		if s, ok := vc.knownGlobal(a.base); ok {
			return tv{s, a.typ}, true
		}
		return tv{vc.load(sc.cur, a), a.typ}, true
	}
	return tv{}, false
}

func (sc *Scope) expandDefine(d *Define, args []tv, e *Expr) (tv, error) {
	if sc.depth > 12 {
		return tv{}, fmt.Errorf("spec %q: define expansion too deep (recursive define?)", e.String())
	}
	if len(args) != len(d.Params) {
		return tv{}, fmt.Errorf("spec %q: %s takes %d arguments", e.String(), d.Name, len(d.Params))
	}
	n := sc.child()
	n.depth = sc.depth + 1
	// defines see only their parameters (plus package names), not the caller's locals
	n.vars = map[string]tv{}
	n.resolver = nil
	n.results = nil
	n.resultNames = nil
	for i, p := range d.Params {
		a := args[i]
		if isUntyped(a.typ) || a.typ == tNil {
			if t := sc.vc.eng.typeByText(p.Type); t != nil {
				if a.typ == tNil && sc.vc.eng.sortOf(t) == "LV" {
					a = tv{sv{"GoNil"}, t}
				} else if sc.vc.eng.sortOf(t) == "F64" {
					a, _ = sc.unify(a, tv{sv{"x"}, t})
					a.typ = t
				} else if _, isSl := t.Underlying().(*types.Slice); isSl && a.typ == tNil {
					a = tv{slv{"0", "0", "0", "0"}, t}
				} else {
					a.typ = t
				}
			}
		}
		n.vars[p.Name] = a
	}
	return n.eval(d.Body)
}

var lvTesters = map[string]string{"isNil": "LNilV", "isBool": "LBoolV", "isNum": "LNumV", "isStr": "LStrV", "isTab": "LTabV", "isFn": "LFnV", "isUd": "LUdV", "isTh": "LThV", "isCh": "LChV", "isGoNil": "GoNil"}

func (sc *Scope) callExpr(e *Expr) (tv, error) {
	vc := sc.vc
	eng := vc.eng
	errf := func(format string, a ...interface{}) (tv, error) {
		return tv{}, fmt.Errorf("spec %q: %s", e.String(), fmt.Sprintf(format, a...))
	}
	if e.Name == "local" && len(e.Args) == 1 {
		// local(x): the source variable x of the function (for locals whose name collides with a spec keyword, e.g. `result`)
		a := e.Args[0]
		name := a.Name
		if a.Op == "result" {
			name = "result"
		}
		if name != "" && sc.resolver != nil {
			if v, ok := sc.resolver(name); ok {
				return v, nil
			}
		}
		return errf("no local variable of that name here")
	}
	var args []tv
	for _, a := range e.Args {
		v, err := sc.eval(a)
		if err != nil {
			return tv{}, err
		}
		args = append(args, v)
	}
	scal := func(i int) Term {
		s, ok := args[i].sym.(sv)
		if !ok {
			unsup("argument %d of %s is not a scalar", i, e.Name)
		}
		return s.t
	}
	lvType := func() types.Type { return eng.typeByText("LValue") }
	if con, ok := lvTesters[e.Name]; ok && len(args) == 1 {
		return tv{sv{fmt.Sprintf("((_ is %s) %s)", con, scal(0))}, tBool}, nil
	}
	switch e.Name {
	case "len", "cap":
		if len(args) != 1 {
			return errf("len takes one argument")
		}
		switch s := args[0].sym.(type) {
		case slv:
			if e.Name == "len" {
				return tv{sv{s.ln}, tInt}, nil
			}
			return tv{sv{s.cp}, tInt}, nil
		case arrPtr:
			return tv{sv{s.n}, tInt}, nil
		case sv:
			if eng.sortOf(args[0].typ) == "Str" {
				return tv{sv{fmt.Sprintf("(slen %s)", s.t)}, tInt}, nil
			}
			if mt, ok := args[0].typ.Underlying().(*types.Map); ok {
				mk := (&frame{vc: vc}).mapKeys(mt)
				return tv{sv{fmt.Sprintf("(ite (= %s 0) 0 %s)", s.t, vc.loadScalar(sc.cur, mk.card, []Term{s.t}, "Int"))}, tInt}, nil
			}
		}
		return errf("len of %s", typeStr(args[0].typ))
	case "has":
		// has(m, k)
		if len(args) == 2 {
			if mt, ok := args[0].typ.Underlying().(*types.Map); ok {
				mk := (&frame{vc: vc}).mapKeys(mt)
				m := scal(0)
				return tv{sv{fmt.Sprintf("(and (not (= %s 0)) (select (select %s %s) %s))", m, vc.heapGet(sc.cur, mk.has, mk.hasSort), m, scal(1))}, tBool}, nil
			}
		}
		return errf("has(map, key)")
	case "num":
		return tv{sv{fmt.Sprintf("(lvn %s)", scal(0))}, eng.typeByText("LNumber")}, nil
	case "str":
		return tv{sv{fmt.Sprintf("(lvs %s)", scal(0))}, eng.typeByText("LString")}, nil
	case "boolv":
		return tv{sv{fmt.Sprintf("(lvb %s)", scal(0))}, tBool}, nil
	case "tab":
		return tv{sv{fmt.Sprintf("(lvt %s)", scal(0))}, eng.typeByText("*LTable")}, nil
	case "fn":
		return tv{sv{fmt.Sprintf("(lvf %s)", scal(0))}, eng.typeByText("*LFunction")}, nil
	case "ud":
		return tv{sv{fmt.Sprintf("(lvu %s)", scal(0))}, eng.typeByText("*LUserData")}, nil
	case "th":
		return tv{sv{fmt.Sprintf("(lvh %s)", scal(0))}, eng.typeByText("*LState")}, nil
	case "mkNum":
		a, _ := sc.unify(tv{sv{"x"}, tFloat}, args[0])
		_ = a
		_, b := sc.unify(tv{sv{"x"}, tFloat}, args[0])
		return tv{sv{fmt.Sprintf("(LNumV %s)", b.sym.(sv).t)}, lvType()}, nil
	case "mkStr":
		return tv{sv{fmt.Sprintf("(LStrV %s)", scal(0))}, lvType()}, nil
	case "mkBool":
		return tv{sv{fmt.Sprintf("(LBoolV %s)", scal(0))}, lvType()}, nil
	case "mkTab":
		return tv{sv{fmt.Sprintf("(LTabV %s)", scal(0))}, lvType()}, nil
	case "mkFn":
		return tv{sv{fmt.Sprintf("(LFnV %s)", scal(0))}, lvType()}, nil
	case "mkUd":
		return tv{sv{fmt.Sprintf("(LUdV %s)", scal(0))}, lvType()}, nil
	case "mkTh":
		return tv{sv{fmt.Sprintf("(LThV %s)", scal(0))}, lvType()}, nil
	case "lvtype":
		return tv{sv{fmt.Sprintf("(lvtype %s)", scal(0))}, tInt}, nil
	case "lveq":
		return tv{sv{fmt.Sprintf("(lveq %s %s)", scal(0), scal(1))}, tBool}, nil
	case "truthy":
		return tv{sv{fmt.Sprintf("(and (not (= %s LNilV)) (not (= %s (LBoolV false))))", scal(0), scal(0))}, tBool}, nil
	case "same":
		return tv{sv{fmt.Sprintf("(= %s %s)", scal(0), scal(1))}, tBool}, nil
	case "hastype":
		// hastype(x, "T"): the non-LValue interface value x holds a (non-nil) pointer of dynamic type T
		if len(e.Args) != 2 || e.Args[1].Op != "str" {
			return errf("hastype(x, \"T\")")
		}
		t := eng.typeByText(e.Args[1].Str)
		if t == nil {
			return errf("hastype: unknown type %s", e.Args[1].Str)
		}
		s, ok := args[0].sym.(sv)
		if !ok {
			return errf("hastype of a composite value")
		}
		vc.needFun("dyntype", "(Int) Int")
		return tv{sv{fmt.Sprintf("(and (not (= %s 0)) (= (dyntype %s) %s))", s.t, s.t, eng.typeID(t))}, tBool}, nil
	case "fresh":
		switch s := args[0].sym.(type) {
		case sv:
			return tv{sv{fmt.Sprintf("(>= %s %s)", s.t, sc.old.alloc)}, tBool}, nil
		case slv:
			return tv{sv{fmt.Sprintf("(>= %s %s)", s.arr, sc.old.alloc)}, tBool}, nil
		}
		return errf("fresh of %T", args[0].sym)
	case "allocated":
		switch s := args[0].sym.(type) {
		case sv:
			return tv{sv{fmt.Sprintf("(< %s %s)", s.t, sc.cur.alloc)}, tBool}, nil
		case slv:
			return tv{sv{fmt.Sprintf("(< %s %s)", s.arr, sc.cur.alloc)}, tBool}, nil
		}
		return errf("allocated of %T", args[0].sym)
	case "ncalls":
		return tv{sv{vc.heapGet(sc.cur, "Z:n", "Int")}, tInt}, nil
	case "callfn":
		return tv{sv{vc.loadScalar(sc.cur, "Z:fn", []Term{scal(0)}, "Int")}, tInt}, nil
	case "fnid":
		if e.Args[0].Op != "str" {
			return errf("fnid needs a string literal")
		}
		for _, cand := range []string{e.Args[0].Str, "iface " + e.Args[0].Str, "extern " + e.Args[0].Str} {
			if ct := eng.db.Contracts[cand]; ct != nil {
				return tv{sv{eng.contractID(ct)}, tInt}, nil
			}
		}
		return errf("fnid: no contract %q", e.Args[0].Str)
	case "callargLV", "callargInt", "callargStr", "callargBool", "callresLV", "callresInt", "callresStr", "callresBool":
		kind := "a"
		name := strings.TrimPrefix(e.Name, "callarg")
		if strings.HasPrefix(e.Name, "callres") {
			kind = "r"
			name = strings.TrimPrefix(e.Name, "callres")
		}
		sort := map[string]string{"LV": "LV", "Int": "Int", "Str": "Str", "Bool": "Bool"}[name]
		pos := "0"
		if len(args) > 1 {
			pos = scal(1)
		}
		rt := map[string]types.Type{"LV": lvType(), "Int": tInt, "Str": tString, "Bool": tBool}[name]
		return tv{sv{vc.loadScalar(sc.cur, fmt.Sprintf("Z:%s%s:%s", kind, pos, sort), []Term{scal(0)}, sort)}, rt}, nil
	case "deref":
		if a, ok := args[0].sym.(adv); ok {
			return tv{vc.load(sc.cur, a), a.typ}, nil
		}
		return errf("deref of a non-address")
	case "arrid":
		if s, ok := args[0].sym.(slv); ok {
			return tv{sv{s.arr}, tInt}, nil
		}
		if s, ok := args[0].sym.(arrPtr); ok {
			return tv{sv{s.arr}, tInt}, nil
		}
		return errf("arrid of non-slice")
	case "offset":
		if s, ok := args[0].sym.(slv); ok {
			return tv{sv{s.off}, tInt}, nil
		}
		return errf("offset of non-slice")
	case "isNaN":
		_, b := sc.unify(tv{sv{"x"}, tFloat}, args[0])
		return tv{sv{fmt.Sprintf("(fisnan %s)", b.sym.(sv).t)}, tBool}, nil
	case "i2f":
		return tv{sv{fmt.Sprintf("(i2f %s)", scal(0))}, tFloat}, nil
	case "f2i":
		return tv{sv{fmt.Sprintf("(f2i %s)", scal(0))}, tInt}, nil
	case "substr":
		return tv{sv{fmt.Sprintf("(substr %s %s %s)", scal(0), scal(1), scal(2))}, tString}, nil
	case "sbyte":
		return tv{sv{fmt.Sprintf("(sbyte %s %s)", scal(0), scal(1))}, tInt}, nil
	case "min", "max":
		op := "<"
		if e.Name == "max" {
			op = ">"
		}
		return tv{sv{fmt.Sprintf("(ite (%s %s %s) %s %s)", op, scal(0), scal(1), scal(0), scal(1))}, args[0].typ}, nil
	case "int", "int64":
		return tv{sv{scal(0)}, tInt}, nil
	case "uint8", "uint16", "uint32", "int32", "int8", "int16", "uint64", "uint":
		t := eng.typeByText(e.Name)
		return tv{sv{wrapInt(t, scal(0))}, t}, nil
	case "string":
		return tv{args[0].sym, tString}, nil
	case "elemref":
		if s, ok := args[0].sym.(slv); ok {
			return tv{sv{fmt.Sprintf("(elemref %s %s)", s.arr, addT(s.off, scal(1)))}, tInt}, nil
		}
		return errf("elemref(slice, i)")
	case "uf":
		// uf("name", args...) : uninterpreted Int-valued function of Int/any scalar args (ghost)
		return errf("uf not supported")
	}
	if strings.HasPrefix(e.Name, "$") && len(args) >= 1 {
		ab := eng.db.Abstracts[e.Name]
		if ab == nil {
			return errf("undeclared abstract function %s", e.Name)
		}
		if _, isI := args[0].typ.Underlying().(*types.Interface); isI {
			rt := eng.typeByText(ab.Ret)
			if rt == nil {
				return errf("abstract %s: unknown type %s", e.Name, ab.Ret)
			}
			sort := eng.sortOf(rt)
			if sort == "" {
				return errf("abstract %s: composite result", e.Name)
			}
			idx := make([]Term, len(args))
			for i := range args {
				idx[i] = scal(i)
			}
			return tv{sv{vc.loadScalar(sc.cur, "A:"+e.Name, idx, sort)}, rt}, nil
		}
		dn := e.Name + "@" + namedNameBare(derefT(args[0].typ))
		d, ok := eng.db.Defines[dn]
		if !ok {
			return errf("no define %s", dn)
		}
		return sc.expandDefine(d, args, e)
	}
	if e.Name == "unchanged" && len(args) == 1 {
		_, et, ok := structOf(args[0].typ)
		r, isRef := args[0].sym.(sv)
		if !ok || !isRef {
			return errf("unchanged needs a struct pointer")
		}
		var ks []string
		vc.keysOfType("F:"+structName(et), et, &ks)
		vc.touchKeysForType(sc.cur, "F:"+structName(et), et, 1)
		var parts []Term
		for _, k := range ks {
			ki := vc.keys[k]
			parts = append(parts, fmt.Sprintf("(= (select %s %s) (select %s %s))", vc.heapGet(sc.cur, k, ki.sort), r.t, vc.heapGet(sc.old, k, ki.sort), r.t))
		}
		return tv{sv{and(parts...)}, tBool}, nil
	}
	if u, ok := eng.db.Uninterps[e.Name]; ok {
		if len(args) != len(u.Params) {
			return errf("%s takes %d arguments", e.Name, len(u.Params))
		}
		rt := eng.typeByText(u.Ret)
		if rt == nil || eng.sortOf(rt) == "" {
			return errf("uninterp %s: bad result type", e.Name)
		}
		var sorts, ts []string
		for i, p := range u.Params {
			pt := eng.typeByText(p.Type)
			if pt == nil || eng.sortOf(pt) == "" {
				return errf("uninterp %s: bad parameter type %s", e.Name, p.Type)
			}
			sorts = append(sorts, eng.sortOf(pt))
			a := args[i]
			if eng.sortOf(pt) == "F64" && isUntyped(a.typ) {
				_, a = sc.unify(tv{sv{"x"}, pt}, a)
			}
			s, ok := a.sym.(sv)
			if !ok {
				return errf("uninterp %s: composite argument", e.Name)
			}
			ts = append(ts, s.t)
		}
		vc.needFun("u_"+e.Name, "("+strings.Join(sorts, " ")+") "+eng.sortOf(rt))
		vc.useAxioms()
		if len(ts) == 0 {
			return tv{sv{"u_" + e.Name}, rt}, nil
		}
		return tv{sv{fmt.Sprintf("(u_%s %s)", e.Name, strings.Join(ts, " "))}, rt}, nil
	}
	if d, ok := eng.db.Defines[e.Name]; ok {
		return sc.expandDefine(d, args, e)
	}
	// pure package function executed symbolically
	if fn := eng.lookupFunc(e.Name, vc); fn != nil {
		return sc.inlineSpec(fn, args, e)
	}
	return errf("unknown spec function %s", e.Name)
}

func (sc *Scope) methodCall(e *Expr) (tv, error) {
	vc := sc.vc
	eng := vc.eng
	recv, err := sc.eval(e.Args[0])
	if err != nil {
		return tv{}, err
	}
	args := []tv{recv}
	for _, a := range e.Args[1:] {
		v, err := sc.eval(a)
		if err != nil {
			return tv{}, err
		}
		args = append(args, v)
	}
	if eng.isLValue(recv.typ) {
		switch e.Name {
		case "Type":
			return tv{sv{fmt.Sprintf("(lvtype %s)", recv.sym.(sv).t)}, eng.typeByText("LValueType")}, nil
		case "String":
			return tv{sv{fmt.Sprintf("(lvstring %s)", recv.sym.(sv).t)}, tString}, nil
		}
	}
	// interface abstract-state functions: self.Sp() etc. resolved through defines named Type.Method
	if _, isI := recv.typ.Underlying().(*types.Interface); isI {
		return tv{}, fmt.Errorf("spec %q: method call on interface value; use ghost defines", e.String())
	}
	fn := eng.lookupMethod(recv.typ, e.Name)
	if fn == nil {
		return tv{}, fmt.Errorf("spec %q: no method %s on %s", e.String(), e.Name, typeStr(recv.typ))
	}
	return sc.inlineSpec(fn, args, e)
}

// inlineSpec symbolically executes a loop-free function for use inside a spec expression.
func (sc *Scope) inlineSpec(fn *ssa.Function, args []tv, e *Expr) (tv, error) {
	vc := sc.vc
	if !vc.eng.inlinable(fn, 0, map[*ssa.Function]bool{}) {
		return tv{}, fmt.Errorf("spec %q: %s is not loop-free/small enough to be used in a spec", e.String(), fn.Name())
	}
	if len(args) != len(fn.Params) {
		return tv{}, fmt.Errorf("spec %q: %s takes %d arguments", e.String(), fn.Name(), len(fn.Params))
	}
	nf := vc.newFrame(fn, 1)
	nf.specMode = true
	for i, p := range fn.Params {
		a := args[i]
		if isUntyped(a.typ) && vc.eng.sortOf(p.Type()) == "F64" {
			_, a = sc.unify(tv{sv{"x"}, p.Type()}, a)
		}
		nf.env[p] = a.sym
	}
	st := sc.cur.clone()
	st.guard = "true"
	var res Sym
	var err error
	func() {
		defer func() {
			if r := recover(); r != nil {
				if u, ok := r.(unsupported); ok {
					err = fmt.Errorf("spec %q: %s", e.String(), u.msg)
					return
				}
				panic(r)
			}
		}()
		nf.run(st)
		var guards []Term
		var vals []Sym
		for _, r := range nf.rets {
			if r.st.dead || len(r.vals) != 1 {
				continue
			}
			guards = append(guards, r.st.guard)
			vals = append(vals, r.vals[0])
		}
		if len(vals) == 0 {
			err = fmt.Errorf("spec %q: %s has no single-result return", e.String(), fn.Name())
			return
		}
		res = vc.mergeSyms("spec_"+fn.Name(), fn.Signature.Results().At(0).Type(), guards, vals)
	}()
	if err != nil {
		return tv{}, err
	}
	return tv{res, fn.Signature.Results().At(0).Type()}, nil
}

// ---------- loop clause evaluation (local names) ----------

func (f *frame) loopScope(li *loopInfo, st *State, ov map[ssa.Value]Sym) *Scope {
	vc := f.vc
	sc := vc.newScope(st, vc.entry)
	if f == vc.topFrame || f.depth == 0 {
		for k, v := range vc.topVars {
			sc.vars[k] = v
		}
	} else {
		for _, p := range f.fn.Params {
			if s, ok := f.env[p]; ok {
				sc.vars[p.Name()] = tv{s, p.Type()}
			}
		}
	}
	if li.blk != nil && li.blk.snap != nil {
		// loop inside a go-inline section: old() is the state at the start of the section, parameters are the
		// section's bindings
		sc.old = li.blk.snap
		for k, v := range li.blk.vars {
			sc.vars[k] = v
		}
	}
	sc.resolver = func(name string) (tv, bool) {
		v := f.resolveLocal(name, li.header)
		if v == nil && name == "rangei" {
			// `for _, x := range s`: the (unnamed) index of the element about to be visited
			for _, in := range li.header.Instrs {
				if phi, ok := in.(*ssa.Phi); ok && phi.Comment == "rangeindex" {
					var ps Sym
					if s, ok := ov[phi]; ok && ov != nil {
						ps = s
					} else if s, ok := f.env[phi]; ok {
						ps = s
					}
					if pt, ok := ps.(sv); ok {
						return tv{sv{fmt.Sprintf("(+ %s 1)", pt.t)}, phi.Type()}, true
					}
				}
			}
		}
		if v == nil {
			// range loops: the index variable is `rangeindex + 1`, computed in the header right after the phi
			var cands []ssa.Instruction
			for _, blk := range f.fn.Blocks {
				if li.body[blk] {
					cands = append(cands, blk.Instrs...)
				}
			}
			for _, in := range cands {
				d, ok := in.(*ssa.DebugRef)
				if !ok || d.Object() == nil || d.Object().Name() != name {
					continue
				}
				bo, ok := d.X.(*ssa.BinOp)
				if !ok || (bo.Op != token.ADD && bo.Op != token.SUB) {
					continue
				}
				phi, ok1 := bo.X.(*ssa.Phi)
				c, ok2 := bo.Y.(*ssa.Const)
				if !ok1 || !ok2 || phi.Block() != li.header || c.Value == nil {
					continue
				}
				var ps Sym
				if s, ok := ov[phi]; ok && ov != nil {
					ps = s
				} else if s, ok := f.env[phi]; ok {
					ps = s
				} else {
					continue
				}
				pt, ok := ps.(sv)
				if !ok {
					continue
				}
				op := "+"
				if bo.Op == token.SUB {
					op = "-"
				}
				return tv{sv{fmt.Sprintf("(%s %s %d)", op, pt.t, c.Int64())}, bo.Type()}, true
			}
			return tv{}, false
		}
		if ov != nil {
			if s, ok := ov[v]; ok {
				return tv{s, v.Type()}, true
			}
		}
		var s Sym
		func() {
			defer func() {
				if r := recover(); r != nil {
					if _, ok := r.(unsupported); ok {
						s = nil
						return
					}
					panic(r)
				}
			}()
			s = f.val(v)
		}()
		if s == nil {
			return tv{}, false
		}
		// address of a local cell (address-taken local, named result of a function with recover): its current content
		if a, ok := s.(adv); ok {
			if p, isP := v.Type().Underlying().(*types.Pointer); isP {
				if _, isAlloc := v.(*ssa.Alloc); isAlloc {
					return tv{vc.load(st, a), p.Elem()}, true
				}
			}
		}
		return tv{s, v.Type()}, true
	}
	return sc
}

func (f *frame) evalLoopClause(e *Expr, li *loopInfo, st *State, ov map[ssa.Value]Sym) (Term, error) {
	return f.loopScope(li, st, ov).evalBool(e)
}

func (f *frame) evalLoopTerm(e *Expr, li *loopInfo, st *State, ov map[ssa.Value]Sym) (Term, error) {
	return f.loopScope(li, st, ov).evalTerm(e)
}

// resolveLocal finds the SSA value of source variable `name` at the start of block at.
func (f *frame) resolveLocal(name string, at *ssa.BasicBlock) ssa.Value {
	return f.resolveLocalAt(name, at, 0)
}

// resolveLocalAt finds the SSA value of source variable `name` just before instruction index upto of block at
// (upto == 0: at the start of the block, after its phis). Address-taken locals resolve to their address.
func (f *frame) resolveLocalAt(name string, at *ssa.BasicBlock, upto int) ssa.Value {
	b := at
	limit := upto
	for b != nil {
		// last DebugRef of a variable called name in this block (before limit)
		var last ssa.Value
		for i, in := range b.Instrs {
			if limit >= 0 && i >= limit {
				break
			}
			if d, ok := in.(*ssa.DebugRef); ok {
				if obj := d.Object(); obj != nil && obj.Name() == name {
					if _, isVar := obj.(*types.Var); isVar {
						last = d.X
					}
				}
			}
		}
		if last != nil {
			return last
		}
		// phis named `name`
		for _, in := range b.Instrs {
			if phi, ok := in.(*ssa.Phi); ok {
				if phi.Comment == name {
					return phi
				}
			} else {
				break
			}
		}
		limit = -1
		b = b.Idom()
	}
	for _, p := range f.fn.Params {
		if p.Name() == name {
			return p
		}
	}
	return nil
}

// assertScope: names resolved just before instruction idx of block b.
func (f *frame) assertScope(b *ssa.BasicBlock, idx int, st *State) *Scope {
	vc := f.vc
	sc := vc.newScope(st, vc.entry)
	if f == vc.topFrame || f.depth == 0 {
		for k, v := range vc.topVars {
			sc.vars[k] = v
		}
	}
	sc.resolver = func(name string) (tv, bool) {
		v := f.resolveLocalAt(name, b, idx)
		if v == nil {
			return tv{}, false
		}
		var s Sym
		func() {
			defer func() {
				if r := recover(); r != nil {
					if _, ok := r.(unsupported); ok {
						s = nil
						return
					}
					panic(r)
				}
			}()
			s = f.val(v)
		}()
		if s == nil {
			return tv{}, false
		}
		t := v.Type()
		// address of a scalar local: use the stored value
		if a, ok := s.(adv); ok {
			if p, isP := t.Underlying().(*types.Pointer); isP {
				if _, isAlloc := v.(*ssa.Alloc); isAlloc {
					return tv{vc.load(st, a), p.Elem()}, true
				}
			}
		}
		return tv{s, t}, true
	}
	return sc
}

var _ = token.NoPos
