package main

// go-inline sections: vm.go and state.go contain copies of functions, marked
//   // this section is inlined by go-inline
//   // source function is 'func (rg *registry) Set(regi int, vali LValue) ' in '_state.go'
//   { ... }
// Each copy is verified in place against the contract of its source function (BLOCK-PRE at the start of the
// section, BLOCK-POST at its end, with old() = the state at the start of the section), and its loops inherit the
// loop invariants of the source function. The copy is never trusted to be equal to the source.

import (
	"fmt"
	"go/ast"
	"go/token"
	"regexp"
	"sort"
	"strings"

	"golang.org/x/tools/go/ssa"
)

type inlBlock struct {
	lbrace, rbrace token.Pos
	bodyStart      token.Pos
	key            string
	ct             *Contract
	params         []string
	occ            int
	snap           *State
	vars           map[string]tv
	entered        bool
	exited         bool
	entryBlock     *ssa.BasicBlock
	label          string
}

var inlSrcRe = regexp.MustCompile(`source function is 'func (\(([A-Za-z_]\w*) (\*?)([A-Za-z_]\w*)\) )?([A-Za-z_]\w*)\((.*)\)`)

func (e *Engine) fileOf(pos token.Pos) *ast.File {
	for _, pp := range e.ppkgs {
		for _, f := range pp.Syntax {
			if f.Pos() <= pos && pos < f.End() {
				return f
			}
		}
	}
	return nil
}

// inlineBlocks finds the go-inline sections inside fn whose source function has a (verified) contract.
func (e *Engine) inlineBlocks(fn *ssa.Function) []*inlBlock {
	syn := fn.Syntax()
	if syn == nil {
		return nil
	}
	file := e.fileOf(syn.Pos())
	if file == nil {
		return nil
	}
	// all block statements inside fn, by Lbrace
	var blocks []*ast.BlockStmt
	ast.Inspect(syn, func(n ast.Node) bool {
		if b, ok := n.(*ast.BlockStmt); ok {
			blocks = append(blocks, b)
		}
		return true
	})
	sort.Slice(blocks, func(i, j int) bool { return blocks[i].Lbrace < blocks[j].Lbrace })
	var out []*inlBlock
	occ := map[string]int{}
	for _, cg := range file.Comments {
		if cg.Pos() < syn.Pos() || cg.End() > syn.End() {
			continue
		}
		txt := cg.Text()
		if !strings.Contains(txt, "this section is inlined by go-inline") {
			continue
		}
		m := inlSrcRe.FindStringSubmatch(txt)
		if m == nil {
			continue
		}
		key := m[5]
		if m[4] != "" {
			if m[3] == "*" {
				key = fmt.Sprintf("(*%s).%s", m[4], m[5])
			} else {
				key = fmt.Sprintf("(%s).%s", m[4], m[5])
			}
		}
		key = e.pkgPrefix(fn.Pkg) + key
		ct := e.db.Contracts[key]
		if ct == nil || ct.Opaque {
			continue
		}
		// next block after the comment
		var blk *ast.BlockStmt
		for _, b := range blocks {
			if b.Lbrace > cg.End() {
				blk = b
				break
			}
		}
		if blk == nil {
			continue
		}
		callee := e.funcs[key]
		if callee == nil {
			continue
		}
		ib := &inlBlock{lbrace: blk.Lbrace, rbrace: blk.Rbrace, key: key, ct: ct}
		pnames := map[string]bool{}
		for _, p := range callee.Params {
			ib.params = append(ib.params, p.Name())
			pnames[p.Name()] = true
		}
		ib.bodyStart = blk.Lbrace + 1
		for _, st := range blk.List {
			as, ok := st.(*ast.AssignStmt)
			if ok && as.Tok == token.DEFINE && len(as.Lhs) == 1 {
				if id, isID := as.Lhs[0].(*ast.Ident); isID && pnames[id.Name] {
					ib.bodyStart = as.End()
					continue
				}
			}
			if st.Pos() > ib.bodyStart {
				ib.bodyStart = st.Pos()
			}
			break
		}
		occ[key]++
		ib.occ = occ[key]
		ib.label = fmt.Sprintf("%s#%d", key, ib.occ)
		out = append(out, ib)
	}
	sort.Slice(out, func(i, j int) bool { return out[i].lbrace < out[j].lbrace })
	return out
}

// innermostBlock returns the innermost go-inline section containing pos.
func (f *frame) innermostBlock(pos token.Pos) *inlBlock {
	var best *inlBlock
	for _, b := range f.blocks {
		if b.lbrace < pos && pos < b.rbrace {
			if best == nil || b.lbrace > best.lbrace {
				best = b
			}
		}
	}
	return best
}

// blockHooks is called before every positioned instruction of the top-level frame.
func (f *frame) blockHooks(b *ssa.BasicBlock, idx int, in ssa.Instruction, cur *State) {
	if len(f.blocks) == 0 || f.specMode || f.depth != 0 {
		return
	}
	if _, isDbg := in.(*ssa.DebugRef); isDbg {
		return
	}
	pos := in.Pos()
	if !pos.IsValid() {
		return
	}
	vc := f.vc
	f.blockExits(b, idx, pos, cur)
	for _, ib := range f.blocks {
		if ib.entered || pos < ib.bodyStart || pos >= ib.rbrace {
			continue
		}
		ib.entered = true
		ib.entryBlock = b
		ib.snap = cur.clone()
		ib.vars = map[string]tv{}
		sc := f.assertScope(b, idx, cur)
		for _, p := range ib.params {
			if v, ok := sc.resolver(p); ok {
				ib.vars[p] = v
			}
		}
		if len(ib.params) > 0 {
			if v, ok := ib.vars[ib.params[0]]; ok {
				ib.vars["self"] = v
			}
		}
		sc.old = ib.snap
		for i, rq := range ib.ct.Requires {
			if rq.Assumed {
				continue
			}
			t, err := sc.evalBool(rq.E)
			if err != nil {
				vc.errs = append(vc.errs, fmt.Sprintf("%s (inlined copy %s): %v", rq.Line, ib.label, err))
				continue
			}
			vc.oblige(cur, "BLOCK-PRE", fmt.Sprintf("%s/%d", ib.label, i+1), t, f.where(pos), "inlined copy of "+ib.key+" requires "+rq.E.String())
		}
	}
}

// blockExits ends every entered section that lies entirely before pos (inner sections first).
func (f *frame) blockExits(b *ssa.BasicBlock, idx int, pos token.Pos, cur *State) {
	if len(f.blocks) == 0 || f.specMode || f.depth != 0 || cur.dead {
		return
	}
	vc := f.vc
	for i := len(f.blocks) - 1; i >= 0; i-- {
		ib := f.blocks[i]
		if !ib.entered || ib.exited || pos <= ib.rbrace || !ib.entryBlock.Dominates(b) {
			continue
		}
		// instructions positioned before the section (e.g. loop increments of an enclosing loop) do not end it
		ib.exited = true
		sc := f.assertScope(b, idx, cur)
		sc.old = ib.snap
		for k, v := range ib.vars {
			sc.vars[k] = v
		}
		inner := sc.resolver
		sc.resolver = func(name string) (tv, bool) {
			if v, ok := ib.vars[name]; ok {
				_ = v
			}
			return inner(name)
		}
		for i, en := range ib.ct.Ensures {
			if strings.HasPrefix(en.Label, "IFACE:") || mentionsLog(en.E) || en.Assumed {
				continue
			}
			t, err := sc.evalBool(en.E)
			if err != nil {
				vc.errs = append(vc.errs, fmt.Sprintf("%s (inlined copy %s): %v", en.Line, ib.label, err))
				continue
			}
			label := fmt.Sprint(i + 1)
			if en.Label != "" {
				label = en.Label
			}
			vc.oblige(cur, "BLOCK-POST", ib.label+"/"+label, t, f.where(pos), "inlined copy of "+ib.key+" ensures "+en.E.String())
			vc.assume(cur, t)
		}
	}
}

// loopBlockSpec: a loop inside a go-inline section inherits the invariants of the same loop of the source function.
func (f *frame) loopBlockSpec(li *loopInfo) (*LoopSpec, *inlBlock) {
	if len(f.blocks) == 0 {
		return nil, nil
	}
	pos := loopPos(li)
	ib := f.innermostBlock(pos)
	// walk outwards until a section whose contract has a spec for this loop
	for ib != nil {
		// ordinal of the loop among the loops contained in the section
		var ps []token.Pos
		for _, other := range f.loops {
			p := loopPos(other)
			if ib.lbrace < p && p < ib.rbrace {
				ps = append(ps, p)
			}
		}
		sort.Slice(ps, func(i, j int) bool { return ps[i] < ps[j] })
		ord := 0
		for i, p := range ps {
			if p == pos {
				ord = i + 1
			}
		}
		if spec := ib.ct.Loops[fmt.Sprint(ord)]; spec != nil {
			return spec, ib
		}
		// enclosing section
		var outer *inlBlock
		for _, b := range f.blocks {
			if b.lbrace < ib.lbrace && ib.rbrace < b.rbrace {
				if outer == nil || b.lbrace > outer.lbrace {
					outer = b
				}
			}
		}
		ib = outer
	}
	return nil, nil
}

func loopPos(li *loopInfo) token.Pos {
	min := token.Pos(1 << 40)
	for b := range li.body {
		for _, in := range b.Instrs {
			if _, isDbg := in.(*ssa.DebugRef); isDbg {
				continue
			}
			if p := in.Pos(); p.IsValid() && p < min {
				min = p
			}
		}
	}
	return min
}
