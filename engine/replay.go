package main

// Counterexample replay on the real code.
//
// Scope (stated in DESIGN.md A.3): package-level functions whose parameters are integers, booleans, strings (only the
// length is taken from the model) or pointers to integers, and whose failed clause is quantifier-free over those
// parameters, `result`, `old()`, `deref()` and calls of package functions. For such a function the candidate model of
// the failed obligation is turned into an in-package Go test that builds the inputs, evaluates the Go form of every
// `requires` (a candidate violating one is spurious), calls the REAL function under recover, and evaluates the Go form of
// the failed clause (or, for SAFE obligations, observes the panic). The test is injected with `go test -overlay`, so
// nothing is written to the repository. A replay that fails on the real code confirms the violation.

import (
	"encoding/json"
	"fmt"
	"go/types"
	"os"
	"os/exec"
	"path/filepath"
	"sort"
	"strconv"
	"strings"

	"golang.org/x/tools/go/ssa"
)

type replayParam struct {
	name  string
	typ   types.Type
	kind  string // int | bool | strlen | ptrint
	model string // name of the SMT constant holding the entry value (length for strings, cell content for pointers)
}

// replayParams returns the parameter descriptions when fn is inside the replayable subset.
func replayParams(fn *ssa.Function) ([]replayParam, bool) {
	if fn.Signature.Recv() != nil || fn.Parent() != nil || fn.Pkg == nil || len(fn.FreeVars) > 0 {
		return nil, false
	}
	if fn.Signature.Variadic() {
		return nil, false
	}
	var ps []replayParam
	for _, p := range fn.Params {
		rp := replayParam{name: p.Name(), typ: p.Type()}
		switch u := types.Unalias(p.Type()).Underlying().(type) {
		case *types.Basic:
			switch {
			case u.Info()&types.IsInteger != 0:
				rp.kind = "int"
			case u.Info()&types.IsBoolean != 0:
				rp.kind = "bool"
			case u.Info()&types.IsString != 0:
				rp.kind = "strlen"
			default:
				return nil, false
			}
		case *types.Pointer:
			b, ok := types.Unalias(u.Elem()).Underlying().(*types.Basic)
			if !ok || b.Info()&types.IsInteger == 0 {
				return nil, false
			}
			rp.kind = "ptrint"
		default:
			return nil, false
		}
		ps = append(ps, rp)
	}
	res := fn.Signature.Results()
	for i := 0; i < res.Len(); i++ {
		b, ok := types.Unalias(res.At(i).Type()).Underlying().(*types.Basic)
		if !ok || b.Info()&(types.IsInteger|types.IsBoolean) == 0 {
			return nil, false
		}
	}
	return ps, true
}

// goForm translates a spec expression into Go source over `int` and `bool` (integers of every width are widened to int;
// / and % are the Euclidean operations of the SMT encoding). Returns ok=false outside the translatable subset.
type goFormer struct {
	e      *Engine
	fn     *ssa.Function
	params map[string]replayParam
	olds   []string // hoisted old() expressions: old_k := <expr> evaluated before the call
	post   bool     // translating a postcondition (result / current values allowed)
}

func (g *goFormer) isBool(x *Expr) bool {
	switch x.Op {
	case "true", "false", "un!", "==", "!=", "<", "<=", ">", ">=", "&&", "||", "==>", "<==>":
		return true
	case "id":
		if p, ok := g.params[x.Name]; ok {
			return p.kind == "bool"
		}
	case "result":
		res := g.fn.Signature.Results()
		i := 0
		if x.Name != "" {
			i = int(x.Name[0] - '0')
		}
		if i < res.Len() {
			b, ok := res.At(i).Type().Underlying().(*types.Basic)
			return ok && b.Info()&types.IsBoolean != 0
		}
	case "call":
		if f := g.pkgFunc(x.Name); f != nil && f.Signature.Results().Len() == 1 {
			b, ok := f.Signature.Results().At(0).Type().Underlying().(*types.Basic)
			return ok && b.Info()&types.IsBoolean != 0
		}
	case "ite":
		return g.isBool(x.Args[1])
	case "old":
		return g.isBool(x.Args[0])
	}
	return false
}

func (g *goFormer) pkgFunc(name string) *ssa.Function {
	if g.fn.Pkg == nil {
		return nil
	}
	f, _ := g.fn.Pkg.Members[name].(*ssa.Function)
	if f == nil {
		return nil
	}
	if _, ok := replayParams(f); !ok {
		return nil
	}
	return f
}

func (g *goFormer) form(x *Expr, inOld bool) (string, bool) {
	bin := func(op string) (string, bool) {
		a, ok1 := g.form(x.Args[0], inOld)
		b, ok2 := g.form(x.Args[1], inOld)
		return "(" + a + " " + op + " " + b + ")", ok1 && ok2
	}
	switch x.Op {
	case "int":
		return "int(" + x.Int.String() + ")", x.Int.IsInt64()
	case "true", "false":
		return x.Op, true
	case "id":
		p, ok := g.params[x.Name]
		if !ok {
			// package-level integer constant
			if g.fn.Pkg != nil {
				if c, isC := g.fn.Pkg.Members[x.Name].(*ssa.NamedConst); isC {
					if b, okb := c.Type().Underlying().(*types.Basic); okb && b.Info()&types.IsInteger != 0 {
						return "int(" + x.Name + ")", true
					}
				}
			}
			return "", false
		}
		suffix := ""
		if g.post && !inOld {
			suffix = "" // parameters are not reassigned by the test: entry value == current value of the variable itself
		}
		switch p.kind {
		case "int":
			return "int(in_" + p.name + suffix + ")", true
		case "bool":
			return "in_" + p.name, true
		}
		return "", false
	case "result":
		if !g.post || inOld {
			return "", false
		}
		i := 0
		if x.Name != "" {
			i = int(x.Name[0] - '0')
		}
		if g.isBool(x) {
			return fmt.Sprintf("r%d", i), true
		}
		return fmt.Sprintf("int(r%d)", i), true
	case "un!":
		a, ok := g.form(x.Args[0], inOld)
		return "(!" + a + ")", ok
	case "un-":
		a, ok := g.form(x.Args[0], inOld)
		return "(-" + a + ")", ok
	case "+", "-", "*":
		return bin(x.Op)
	case "/":
		a, ok1 := g.form(x.Args[0], inOld)
		b, ok2 := g.form(x.Args[1], inOld)
		return "gvDiv(" + a + ", " + b + ")", ok1 && ok2
	case "%":
		a, ok1 := g.form(x.Args[0], inOld)
		b, ok2 := g.form(x.Args[1], inOld)
		return "gvMod(" + a + ", " + b + ")", ok1 && ok2
	case "==", "!=":
		if g.isBool(x.Args[0]) != g.isBool(x.Args[1]) {
			return "", false
		}
		return bin(x.Op)
	case "<", "<=", ">", ">=", "&&", "||":
		return bin(x.Op)
	case "==>":
		a, ok1 := g.form(x.Args[0], inOld)
		b, ok2 := g.form(x.Args[1], inOld)
		return "(!" + a + " || " + b + ")", ok1 && ok2
	case "<==>":
		a, ok1 := g.form(x.Args[0], inOld)
		b, ok2 := g.form(x.Args[1], inOld)
		return "(" + a + " == " + b + ")", ok1 && ok2
	case "ite":
		c, ok1 := g.form(x.Args[0], inOld)
		a, ok2 := g.form(x.Args[1], inOld)
		b, ok3 := g.form(x.Args[2], inOld)
		t := "int"
		if g.isBool(x.Args[1]) {
			t = "bool"
		}
		return fmt.Sprintf("func() %s { if %s { return %s }; return %s }()", t, c, a, b), ok1 && ok2 && ok3
	case "old":
		if !g.post {
			return g.form(x.Args[0], true)
		}
		s, ok := g.form(x.Args[0], true)
		if !ok {
			return "", false
		}
		name := fmt.Sprintf("old_%d", len(g.olds))
		g.olds = append(g.olds, name+" := "+s)
		return name, true
	case "call":
		switch x.Name {
		case "deref":
			if len(x.Args) == 1 && x.Args[0].Op == "id" {
				if p, ok := g.params[x.Args[0].Name]; ok && p.kind == "ptrint" {
					if inOld || !g.post {
						return "int(cell0_" + p.name + ")", true
					}
					return "int(*in_" + p.name + ")", true
				}
			}
			return "", false
		case "len":
			if len(x.Args) == 1 && x.Args[0].Op == "id" {
				if p, ok := g.params[x.Args[0].Name]; ok && p.kind == "strlen" {
					return "len(in_" + p.name + ")", true
				}
			}
			return "", false
		case "min", "max":
			if len(x.Args) == 2 {
				a, ok1 := g.form(x.Args[0], inOld)
				b, ok2 := g.form(x.Args[1], inOld)
				return "gv" + strings.Title(x.Name) + "(" + a + ", " + b + ")", ok1 && ok2
			}
			return "", false
		}
		f := g.pkgFunc(x.Name)
		if f == nil || len(f.Params) != len(x.Args) || f.Signature.Results().Len() != 1 {
			// non-recursive spec function without quantifiers: expand it
			if d, ok := g.e.db.Defines[x.Name]; ok && len(d.Params) == len(x.Args) && d.Body != nil {
				return g.expand(d, x.Args, inOld)
			}
			return "", false
		}
		var as []string
		for i, a := range x.Args {
			s, ok := g.form(a, inOld)
			if !ok {
				return "", false
			}
			pt := f.Params[i].Type()
			b, okb := types.Unalias(pt).Underlying().(*types.Basic)
			if !okb {
				return "", false
			}
			if b.Info()&types.IsInteger != 0 {
				as = append(as, types.TypeString(pt, func(*types.Package) string { return "" })+"("+s+")")
			} else {
				as = append(as, s)
			}
		}
		call := x.Name + "(" + strings.Join(as, ", ") + ")"
		if g.isBool(x) {
			return call, true
		}
		return "int(" + call + ")", true
	}
	return "", false
}

// expand inlines a `define` whose body is itself translatable (parameters substituted textually through a closure).
func (g *goFormer) expand(d *Define, args []*Expr, inOld bool) (string, bool) {
	sub := map[string]*Expr{}
	for i, p := range d.Params {
		sub[p.Name] = args[i]
	}
	body := substExpr(d.Body, sub)
	return g.form(body, inOld)
}

func substExpr(x *Expr, sub map[string]*Expr) *Expr {
	if x == nil {
		return nil
	}
	if x.Op == "id" {
		if r, ok := sub[x.Name]; ok {
			return r
		}
		return x
	}
	n := *x
	n.Src = ""
	n.Args = make([]*Expr, len(x.Args))
	for i, a := range x.Args {
		n.Args[i] = substExpr(a, sub)
	}
	return &n
}

func modelInt(s string) (int64, bool) {
	s = strings.TrimSpace(s)
	neg := false
	if strings.HasPrefix(s, "(-") {
		neg = true
		s = strings.TrimSpace(strings.TrimSuffix(strings.TrimPrefix(s, "(-"), ")"))
	}
	v, err := strconv.ParseInt(s, 10, 64)
	if err != nil {
		return 0, false
	}
	if neg {
		v = -v
	}
	return v, true
}

// replayObligation: see the package comment. path is the .txt replay file of the obligation; on success the Go test and
// its transcript are stored next to it and appended to it.
func replayObligation(e *Engine, o *Obligation, path string) bool {
	dbg := func(msg string) bool {
		if os.Getenv("GVERIF_DEBUG") != "" {
			fmt.Fprintln(os.Stderr, "replay:", o.Name, msg)
		}
		return false
	}
	if o.vc == nil || o.vc.fn == nil || o.Static || o.RawQuery != "" {
		return dbg("not a function obligation")
	}
	if o.Model == nil {
		o.Model = map[string]string{}
	}
	fn := o.vc.fn
	ps, ok := replayParams(fn)
	if !ok || len(o.vc.replayIn) != len(ps) {
		return dbg(fmt.Sprintf("outside the replayable subset (ok=%v, inputs=%d, params=%d)", ok, len(o.vc.replayIn), len(ps)))
	}
	if o.Kind != "POST" && o.Kind != "SAFE" {
		return false
	}
	g := &goFormer{e: e, fn: fn, params: map[string]replayParam{}}
	// candidate pools: the model value first (so the solver's candidate is tried first), then boundary values and the
	// integer literals of the contract (+-1): a small-scope witness search used when the model itself does not replay
	lits := map[int64]bool{}
	var collect func(x *Expr)
	collect = func(x *Expr) {
		if x == nil {
			return
		}
		if x.Op == "int" && x.Int.IsInt64() {
			v := x.Int.Int64()
			lits[v-1], lits[v], lits[v+1] = true, true, true
		}
		for _, a := range x.Args {
			collect(a)
		}
	}
	for _, r := range o.vc.ct.Requires {
		collect(r.E)
	}
	for _, r := range o.vc.ct.Ensures {
		collect(r.E)
	}
	basePool := []int64{0, 1, 2, 3, -1, -2, 7, 8, 63, 64, 127, 128, 255, 256, 257, 511, 512, 1023, 65535, 65536, 131071, 131072, 262143, 262144,
		1 << 25, 1<<26 - 1, 1 << 26, 1<<31 - 1, 1 << 31, 1<<32 - 1, 0x55555555, 0xaaaaaaaa, 0xfe03ffff, 0x01fc0000, 0x02000000}
	var litList []int64
	for v := range lits {
		litList = append(litList, v)
	}
	sort.Slice(litList, func(a, b int) bool { return litList[a] < litList[b] })
	poolOf := func(first int64, has bool, small bool) string {
		seen := map[int64]bool{}
		var vs []string
		add := func(v int64) {
			if !seen[v] {
				seen[v] = true
				vs = append(vs, fmt.Sprint(v))
			}
		}
		if has {
			add(first)
		}
		if small {
			for v := int64(0); v <= 6; v++ {
				add(v)
			}
		} else {
			for _, v := range basePool {
				add(v)
			}
		}
		for _, v := range litList {
			if !small || (v >= 0 && v <= 64) {
				add(v)
			}
		}
		return "[]int{" + strings.Join(vs, ", ") + "}"
	}
	var loops, closers []string
	nLoops := 0
	for i := range ps {
		ps[i].model = o.vc.replayIn[i]
		g.params[ps[i].name] = ps[i]
		val, has := o.Model[ps[i].model]
		ts := types.TypeString(ps[i].typ, func(*types.Package) string { return "" })
		v, okv := modelInt(val)
		has = has && okv
		switch ps[i].kind {
		case "int":
			loops = append(loops, fmt.Sprintf("for _, v_%s := range %s {\nin_%s := %s(v_%s)", ps[i].name, poolOf(v, has, false), ps[i].name, ts, ps[i].name))
			nLoops++
		case "bool":
			first := "false, true"
			if val == "true" {
				first = "true, false"
			}
			loops = append(loops, fmt.Sprintf("for _, in_%s := range []bool{%s} {", ps[i].name, first))
			nLoops++
		case "strlen":
			if v > 1<<20 || v < 0 {
				has = false
			}
			loops = append(loops, fmt.Sprintf("for _, v_%s := range %s {\nif v_%s < 0 || v_%s > 1<<20 { continue }\nin_%s := strings.Repeat(\"a\", v_%s)", ps[i].name, poolOf(v, has, true), ps[i].name, ps[i].name, ps[i].name, ps[i].name))
			nLoops++
		case "ptrint":
			et := types.TypeString(ps[i].typ.Underlying().(*types.Pointer).Elem(), func(*types.Package) string { return "" })
			loops = append(loops, fmt.Sprintf("for _, v_%s := range %s {\ncell0_%s := %s(v_%s)\ncell_%s := cell0_%s\nin_%s := &cell_%s", ps[i].name, poolOf(v, has, false), ps[i].name, et, ps[i].name, ps[i].name, ps[i].name, ps[i].name, ps[i].name))
			nLoops++
		}
		closers = append(closers, "}")
	}
	if nLoops > 3 {
		return dbg("too many parameters for the witness search")
	}
	// requires
	var reqs []string
	for _, r := range o.vc.ct.Requires {
		s, okr := g.form(r.E, false)
		if !okr {
			return false
		}
		reqs = append(reqs, s)
	}
	clause := ""
	if o.Kind == "POST" {
		if o.Clause == nil {
			return false
		}
		g.post = true
		s, okc := g.form(o.Clause, false)
		if !okc {
			return false
		}
		clause = s
	}
	var args, rets []string
	for _, p := range ps {
		args = append(args, "in_"+p.name)
	}
	for i := 0; i < fn.Signature.Results().Len(); i++ {
		rets = append(rets, fmt.Sprintf("r%d", i))
	}
	var sb strings.Builder
	pkg := fn.Pkg.Pkg.Name()
	fmt.Fprintf(&sb, "package %s\n\n// generated by gverif: replay of the candidate counterexample of obligation\n//   %s\n// clause: %s\n\nimport (\n\t\"fmt\"\n\t\"strings\"\n\t\"testing\"\n)\n\n", pkg, o.Name, o.Desc)
	sb.WriteString("var _ = strings.Repeat\nvar _ = fmt.Sprintf\n\n// Euclidean division/remainder, as in the SMT encoding of the spec operators / and %\nfunc gvDiv(a, b int) int { if b == 0 { return 0 }; q, r := a/b, a%b; if r < 0 { if b > 0 { q-- } else { q++ } }; return q }\n")
	sb.WriteString("func gvMod(a, b int) int { if b == 0 { return a }; return a - gvDiv(a, b)*b }\n")
	sb.WriteString("func gvMin(a, b int) int { if a < b { return a }; return b }\nfunc gvMax(a, b int) int { if a > b { return a }; return b }\n\n")
	sb.WriteString("func TestGverifReplay(t *testing.T) {\n\ttried, admissible := 0, 0\n")
	for _, l := range loops {
		sb.WriteString("\t" + strings.ReplaceAll(l, "\n", "\n\t") + "\n")
	}
	var names []string
	var fmts []string
	for _, p := range ps {
		sb.WriteString("\t_ = in_" + p.name + "\n")
		switch p.kind {
		case "ptrint":
			sb.WriteString("\t_ = cell0_" + p.name + "\n")
			names = append(names, "cell0_"+p.name)
			fmts = append(fmts, "*"+p.name+"=%v")
		case "strlen":
			names = append(names, "len(in_"+p.name+")")
			fmts = append(fmts, "len("+p.name+")=%v")
		default:
			names = append(names, "in_"+p.name)
			fmts = append(fmts, p.name+"=%v")
		}
	}
	sb.WriteString("\ttried++\n")
	for _, r := range reqs {
		fmt.Fprintf(&sb, "\tif !(%s) {\n\t\tcontinue\n\t}\n", r)
	}
	sb.WriteString("\tadmissible++\n")
	for _, od := range g.olds {
		sb.WriteString("\t" + od + "\n")
		sb.WriteString("\t_ = " + strings.SplitN(od, " ", 2)[0] + "\n")
	}
	inputDesc := fmt.Sprintf("fmt.Sprintf(%q, %s)", strings.Join(fmts, " "), strings.Join(names, ", "))
	if len(names) == 0 {
		inputDesc = "\"(no inputs)\""
	}
	sb.WriteString("\tfunc() {\n\t\tdefer func() {\n\t\t\tif r := recover(); r != nil {\n\t\t\t\tt.Fatalf(\"GVERIF-CONFIRMED: the real function panicked: %v; input #%d: %s\", r, tried, " + inputDesc + ")\n\t\t\t}\n\t\t}()\n")
	call := fn.Name() + "(" + strings.Join(args, ", ") + ")"
	if len(rets) > 0 {
		sb.WriteString("\t\t" + strings.Join(rets, ", ") + " := " + call + "\n")
		for _, r := range rets {
			sb.WriteString("\t\t_ = " + r + "\n")
		}
	} else {
		sb.WriteString("\t\t" + call + "\n")
	}
	if clause != "" {
		fmt.Fprintf(&sb, "\t\tif !(%s) {\n\t\t\tt.Fatalf(\"GVERIF-CONFIRMED: the clause is false on the real code; input #%%d: %%s\", tried, %s)\n\t\t}\n", clause, inputDesc)
	}
	sb.WriteString("\t}()\n")
	for range closers {
		sb.WriteString("\t}\n")
	}
	sb.WriteString("\tt.Logf(\"GVERIF-NOT-CONFIRMED: %d inputs tried, %d satisfied the precondition, none violated the clause\", tried, admissible)\n}\n")
	dir := filepath.Dir(path)
	base := strings.TrimSuffix(filepath.Base(path), ".txt")
	testFile := filepath.Join(dir, base+"_replay_test.go")
	if err := os.WriteFile(testFile, []byte(sb.String()), 0o644); err != nil {
		return false
	}
	// overlay: the test appears inside the package directory without being written there
	pkgDir := e.repo
	if pkg != "lua" {
		pkgDir = filepath.Join(e.repo, pkg)
	}
	ov := map[string]map[string]string{"Replace": {filepath.Join(pkgDir, "zz_gverif_replay_test.go"): testFile}}
	ovb, _ := json.Marshal(ov)
	ovFile := filepath.Join(dir, base+"_overlay.json")
	os.WriteFile(ovFile, ovb, 0o644)
	cmd := exec.Command("go", "test", "-overlay", ovFile, "-vet=off", "-count=1", "-timeout", "60s", "-run", "^TestGverifReplay$", ".")
	cmd.Dir = pkgDir
	cmd.Env = append(os.Environ(), "GOFLAGS=-mod=mod", "GOPROXY=off", "GOSUMDB=off", "GOTOOLCHAIN=local")
	out, _ := cmd.CombinedOutput()
	txt := string(out)
	confirmed := strings.Contains(txt, "GVERIF-CONFIRMED")
	status := "not confirmed"
	if confirmed {
		status = "CONFIRMED on the real code (input #1 is the solver's candidate; a later input number means it was found by the bounded witness search over boundary values)"
	}
	f, err := os.OpenFile(path, os.O_APPEND|os.O_WRONLY, 0o644)
	if err == nil {
		fmt.Fprintf(f, "\n--- replay on the real code: %s\ntest: %s\ncommand: (cd %s && go test -overlay %s -vet=off -count=1 -timeout 60s -run '^TestGverifReplay$' .)\n%s\n", status, testFile, pkgDir, ovFile, txt)
		f.Close()
	}
	return confirmed
}
