package main

// Counterexample replay on the real code (filled in later).

func replayObligation(e *Engine, o *Obligation, path string) bool { return false }
