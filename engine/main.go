package main

import (
	"encoding/json"
	"flag"
	"fmt"
	"os"
	"os/exec"
	"path/filepath"
	"sort"
	"strings"
	"sync"
	"time"
)

type KnownFinding struct {
	Property   string `json:"property"`
	Obligation string `json:"obligation"`
	Status     string `json:"status"` // open | fixed
	What       string `json:"what"`
	Commit     string `json:"commit,omitempty"`
}

func main() {
	if len(os.Args) < 2 {
		fmt.Fprintln(os.Stderr, "usage: gverif check|list|dump ...")
		os.Exit(2)
	}
	switch os.Args[1] {
	case "check":
		os.Exit(cmdCheck(os.Args[2:]))
	case "list":
		os.Exit(cmdList(os.Args[2:]))
	case "replay":
		os.Exit(cmdReplay(os.Args[2:]))
	default:
		fmt.Fprintln(os.Stderr, "unknown command", os.Args[1])
		os.Exit(2)
	}
}

func hasTag(tags []string, p string) bool {
	for _, t := range tags {
		if t == p {
			return true
		}
	}
	return false
}

func contractHasTag(ct *Contract, p string) bool {
	if hasTag(ct.Tags, p) {
		return true
	}
	for _, c := range ct.Ensures {
		if hasTag(c.Tags, p) {
			return true
		}
	}
	for _, c := range ct.Requires {
		if hasTag(c.Tags, p) {
			return true
		}
	}
	for _, l := range ct.Loops {
		for _, c := range l.Invariants {
			if hasTag(c.Tags, p) {
				return true
			}
		}
	}
	return false
}

func cmdList(args []string) int {
	fs := flag.NewFlagSet("list", flag.ExitOnError)
	repo := fs.String("repo", "/repo", "repository")
	fs.Parse(args)
	e, err := loadEngine(*repo)
	if err != nil {
		fmt.Fprintln(os.Stderr, err)
		return 2
	}
	var ks []string
	for k := range e.funcs {
		ks = append(ks, k)
	}
	sort.Strings(ks)
	for _, k := range ks {
		mark := " "
		if e.db.Contracts[k] != nil {
			mark = "*"
		}
		fmt.Println(mark, k)
	}
	return 0
}

func cmdCheck(args []string) int {
	fs := flag.NewFlagSet("check", flag.ExitOnError)
	repo := fs.String("repo", "/repo", "repository to verify")
	prop := fs.String("property", "", "property id (C01..); empty = all contracts")
	tier := fs.String("tier", "quick", "quick|thorough")
	only := fs.String("func", "", "verify only this function key")
	dump := fs.Bool("dump", false, "keep every query file")
	verbose := fs.Bool("v", false, "verbose")
	evidence := fs.String("evidence", "", "evidence file to write (default /verif/evidence/<property>.json)")
	verifDir := fs.String("verif", "/verif", "verif directory")
	nocache := fs.Bool("nocache", false, "ignore the result cache")
	noSelf := fs.Bool("noselftest", false, "thorough tier: skip the seeded-change self-test")
	fs.Parse(args)
	t0 := time.Now()
	cacheDir = filepath.Join(*verifDir, ".cache")
	if *nocache || *tier == "thorough" {
		useCache = false
	}
	seed := 0
	if s := os.Getenv("VERIF_SEED"); s != "" {
		fmt.Sscan(s, &seed)
	}
	e, err := loadEngine(*repo)
	if err != nil {
		fmt.Fprintln(os.Stderr, "gverif:", err)
		if e == nil || e.db == nil {
			// the tree does not load: every proof is lost
			return reportLoadFailure(*prop, *verifDir, *evidence, *tier, seed, err, t0)
		}
		return reportLoadFailure(*prop, *verifDir, *evidence, *tier, seed, err, t0)
	}
	timeout := 20
	if *tier == "thorough" {
		timeout = 60
	}
	workDir, _ := os.MkdirTemp("", "gverif-")
	if *dump {
		keepFiles = true
		useCache = false
		workDir = filepath.Join(*verifDir, ".work")
		os.MkdirAll(workDir, 0o755)
	} else {
		defer os.RemoveAll(workDir)
	}
	// select functions
	var keys []string
	for _, k := range e.db.Order {
		ct := e.db.Contracts[k]
		if ct.KeyKind != "func" || ct.Opaque {
			continue
		}
		if *only != "" && k != *only {
			continue
		}
		if *prop != "" && !contractHasTag(ct, *prop) {
			continue
		}
		keys = append(keys, k)
	}
	var results []*FuncResult
	var mu sync.Mutex
	var wg sync.WaitGroup
	// VC generation is sequential (shared engine caches); solving is parallel.
	for _, k := range keys {
		tg := time.Now()
		r := e.verifyFunction(k, e.db.Contracts[k])
		if os.Getenv("GVERIF_TIMING") != "" {
			fmt.Fprintf(os.Stderr, "gen %6.2fs %5d obls %7d lines  %s\n", time.Since(tg).Seconds(), len(r.Obls), r.Lines, k)
		}
		results = append(results, r)
	}
	if os.Getenv("GVERIF_TIMING") != "" {
		fmt.Fprintf(os.Stderr, "generation done at %.1fs\n", time.Since(t0).Seconds())
	}
	var obls []*Obligation
	for _, r := range results {
		for _, o := range r.Obls {
			if *prop != "" && !hasTag(o.Tags, *prop) {
				continue
			}
			obls = append(obls, o)
		}
	}
	// raw SMT lemmas (facts about machine arithmetic proved once in a precise theory; the same facts are used as
	// axioms of the uninterpreted conversion functions in the int-mode queries)
	for _, lm := range e.db.Lemmas {
		if lm.Raw == "" || (*prop != "" && !hasTag(lm.Tags, *prop)) || *only != "" {
			continue
		}
		lvc := &VC{key: "lemma", lines: []string{lm.Raw}}
		obls = append(obls, &Obligation{Name: "lemma/" + lm.Name, Kind: "LEMMA", Fn: "lemma", Tags: lm.Tags, Expect: "unsat", vc: lvc, RawQuery: lm.Raw + "\n(check-sat)\n", Desc: "lemma " + lm.Name, Where: lm.Line})
	}
	if *only == "" {
		for _, o := range e.structuralObligations() {
			if *prop != "" && len(o.Tags) > 0 && !hasTag(o.Tags, *prop) {
				continue
			}
			obls = append(obls, o)
		}
	}
	sem := make(chan struct{}, 16)
	for i, o := range obls {
		if o.Static {
			continue
		}
		wg.Add(1)
		sem <- struct{}{}
		go func(i int, o *Obligation) {
			defer wg.Done()
			defer func() { <-sem }()
			tq := time.Now()
			defer func() {
				if os.Getenv("GVERIF_TIMING") != "" && time.Since(tq).Seconds() > 0.5 {
					fmt.Fprintf(os.Stderr, "obl %6.2fs %s %s\n", time.Since(tq).Seconds(), o.Expect, o.Name)
				}
			}()
			q := ""
			if o.RawQuery != "" {
				q = o.RawQuery
			} else {
				q = o.query()
			}
			if o.Expect == "notunsat" {
				q = o.vacuityQuery()
			}
			name := fmt.Sprintf("q%05d_%s", i, sanitize(o.Name))
			if len(name) > 120 {
				name = name[:120]
			}
			var fin SolverResult
			var all []SolverResult
			if o.Expect == "notunsat" {
				fin = solveOnce(q, workDir, name, 2)
			} else {
				caseSplit := func(tmo int) bool {
					// one query per path into the merged block (all must be unsat)
					// the cases are independent: solve them concurrently
					rs := make([]SolverResult, len(o.Cases))
					var cwg sync.WaitGroup
					for ci, c := range o.Cases {
						cwg.Add(1)
						go func(ci int, c Term) {
							defer cwg.Done()
							rs[ci], _ = solve(o.queryWith(c), workDir, fmt.Sprintf("%s_case%d", name, ci), tmo, false)
						}(ci, c)
					}
					cwg.Wait()
					var secs float64
					for _, r := range rs {
						if r.Secs > secs {
							secs = r.Secs
						}
						if r.Status != "unsat" {
							return false
						}
					}
					fin = SolverResult{Status: "unsat", Solver: fmt.Sprintf("case-split(%d)", len(o.Cases)), Secs: secs}
					return true
				}
				if *tier == "thorough" {
					fin, all = solve(q, workDir, name, timeout, true)
					if fin.Status != "unsat" && fin.Status != "sat" && fin.Status != "disagree" && len(o.Cases) > 1 {
						caseSplit(timeout)
					}
				} else {
					// quick: a short attempt on the whole query, then the per-path queries (merged paths are what makes a
					// query slow), and only then the long race on the whole query
					fin, all = solve(q, workDir, name, 3, false)
					if fin.Status != "unsat" && fin.Status != "sat" {
						if !(len(o.Cases) > 1 && caseSplit(6)) {
							fin, all = solve(q, workDir, name, timeout, false)
							if fin.Status != "unsat" && fin.Status != "sat" && len(o.Cases) > 1 {
								caseSplit(timeout)
							}
						}
					}
				}
			}
			mu.Lock()
			o.Result = fin
			o.All = all
			mu.Unlock()
		}(i, o)
	}
	wg.Wait()
	rep := buildReport(e, *prop, *tier, seed, keys, results, obls, *verifDir, time.Since(t0).Seconds(), *verbose)
	if *tier == "thorough" && !*noSelf && *prop != "" && *only == "" && *repo == "/repo" {
		st := selfTest(*prop, *verifDir)
		if cov, ok := rep.Evidence["coverage"].(map[string]interface{}); ok {
			cov["selftest"] = st
		}
		for _, l := range st.Lines {
			rep.Lines = append(rep.Lines, l)
		}
		rep.Evidence["wall_s"] = time.Since(t0).Seconds()
	}
	evFile := *evidence
	if evFile == "" && *prop != "" {
		evFile = filepath.Join(*verifDir, "evidence", *prop+".json")
	}
	if evFile != "" {
		os.MkdirAll(filepath.Dir(evFile), 0o755)
		b, _ := json.MarshalIndent(rep.Evidence, "", " ")
		os.WriteFile(evFile, b, 0o644)
	}
	for _, l := range rep.Lines {
		fmt.Println(l)
	}
	if rep.Violations > 0 {
		return 1
	}
	return 0
}

type Report struct {
	Lines      []string
	Violations int
	Evidence   map[string]interface{}
}

func loadKnown(verifDir string) []KnownFinding {
	var kf []KnownFinding
	b, err := os.ReadFile(filepath.Join(verifDir, "known_findings.json"))
	if err != nil {
		return nil
	}
	var doc struct {
		Findings []KnownFinding `json:"findings"`
	}
	if json.Unmarshal(b, &doc) == nil {
		kf = doc.Findings
	}
	return kf
}

func reportLoadFailure(prop, verifDir, evidence, tier string, seed int, err error, t0 time.Time) int {
	// A tree that does not load or type-check, or whose contracts no longer parse, loses every proof.
	replayDir := filepath.Join(verifDir, "replay", prop)
	os.MkdirAll(replayDir, 0o755)
	path := filepath.Join(replayDir, "load_failure.txt")
	os.WriteFile(path, []byte("obligation: <load>\nThe repository (tags verif) did not load, so no obligation could be generated.\n\n"+err.Error()+"\n"), 0o644)
	fmt.Printf("VIOLATION property=%s replay=%s obligation=<load> no-failing-input-found\n", prop, path)
	ev := map[string]interface{}{"property_id": prop, "tier": tier, "seed": seed, "level": "proof",
		"coverage": map[string]interface{}{"obligations": 1, "discharged": 0, "checker_cmd": "gverif check", "trusted_base": []string{}, "evaluations": 1, "distinct_nontrivial": 0, "explanation": "repository did not load: " + err.Error()},
		"wall_s":   time.Since(t0).Seconds(), "violations": 1}
	evFile := evidence
	if evFile == "" && prop != "" {
		evFile = filepath.Join(verifDir, "evidence", prop+".json")
	}
	if evFile != "" {
		os.MkdirAll(filepath.Dir(evFile), 0o755)
		b, _ := json.MarshalIndent(ev, "", " ")
		os.WriteFile(evFile, b, 0o644)
	}
	return 1
}

func buildReport(e *Engine, prop, tier string, seed int, keys []string, results []*FuncResult, obls []*Obligation, verifDir string, wall float64, verbose bool) *Report {
	rep := &Report{}
	known := loadKnown(verifDir)
	isKnown := func(name string) *KnownFinding {
		for i := range known {
			if known[i].Status == "open" && known[i].Obligation == name && (known[i].Property == prop || prop == "") {
				return &known[i]
			}
		}
		return nil
	}
	replayDir := filepath.Join(verifDir, "replay", prop)
	nObl, nDis, nVac := 0, 0, 0
	bySolver := map[string]int{}
	var solverSecs float64
	var samples []interface{}
	var failed []*Obligation
	knownSeen := map[string]bool{}
	for _, o := range obls {
		solverSecs += o.Result.Secs
		if o.Expect == "notunsat" {
			nVac++
			if o.Result.Status == "unsat" {
				// hypotheses are contradictory or the exit is unreachable
				failed = append(failed, o)
			}
			continue
		}
		nObl++
		if o.Result.Status == "unsat" {
			nDis++
			s := strings.TrimSuffix(o.Result.Solver, " (cached)")
			bySolver[s]++
			if len(samples) < 6 && o.Kind != "SAFE" || len(samples) < 3 {
				samples = append(samples, map[string]string{"obligation": o.Name, "kind": o.Kind, "clause": o.Desc, "where": o.Where, "result": "unsat", "solver": o.Result.Solver})
			}
		} else {
			failed = append(failed, o)
		}
	}
	// errors (contract no longer applies, outside subset) are lost proofs
	type lost struct{ fn, msg string }
	var losts []lost
	for _, r := range results {
		for _, er := range r.Errs {
			losts = append(losts, lost{r.Key, er})
		}
	}
	sort.Slice(failed, func(i, j int) bool { return failed[i].Name < failed[j].Name })
	for _, o := range failed {
		if kf := isKnown(o.Name); kf != nil {
			if !knownSeen[o.Name] {
				knownSeen[o.Name] = true
				rep.Lines = append(rep.Lines, fmt.Sprintf("KNOWN-FINDING: property=%s %s %s", prop, o.Name, kf.What))
			}
			continue
		}
		os.MkdirAll(replayDir, 0o755)
		path := filepath.Join(replayDir, sanitize(o.Name)+".txt")
		writeReplayFile(path, o, prop)
		confirmed := tryReplay(e, o, path)
		rep.Violations++
		if confirmed {
			rep.Lines = append(rep.Lines, fmt.Sprintf("VIOLATION property=%s replay=%s", prop, path))
		} else {
			rep.Lines = append(rep.Lines, fmt.Sprintf("VIOLATION property=%s replay=%s obligation=%s no-failing-input-found", prop, path, strings.ReplaceAll(o.Name, " ", "_")))
		}
	}
	for i, l := range losts {
		os.MkdirAll(replayDir, 0o755)
		path := filepath.Join(replayDir, fmt.Sprintf("lost_%s_%d.txt", sanitize(l.fn), i))
		os.WriteFile(path, []byte(fmt.Sprintf("obligation: %s/CONTRACT\n%s\n", l.fn, l.msg)), 0o644)
		rep.Violations++
		rep.Lines = append(rep.Lines, fmt.Sprintf("VIOLATION property=%s replay=%s obligation=%s/CONTRACT no-failing-input-found", prop, path, strings.ReplaceAll(l.fn, " ", "_")))
	}
	// open known findings that no longer fail are reported as a note (not an alarm)
	for _, kf := range known {
		if kf.Status == "open" && kf.Property == prop && !knownSeen[kf.Obligation] {
			rep.Lines = append(rep.Lines, fmt.Sprintf("NOTE: known finding %s no longer fails", kf.Obligation))
		}
	}
	if nObl == 0 && len(losts) == 0 {
		rep.Violations++
		rep.Lines = append(rep.Lines, fmt.Sprintf("VIOLATION property=%s replay=%s obligation=<none> no-failing-input-found", prop, filepath.Join(verifDir, "replay", prop, "no_obligations.txt")))
		os.MkdirAll(replayDir, 0o755)
		os.WriteFile(filepath.Join(replayDir, "no_obligations.txt"), []byte("obligation: <none>\nno obligation was generated for this property (vacuity guard)\n"), 0o644)
	}
	var abstracted []string
	opaque := 0
	var fnSumm []string
	for _, r := range results {
		abstracted = append(abstracted, r.Abstracted...)
		opaque += r.Opaque
		n := 0
		for _, o := range r.Obls {
			if (prop == "" || hasTag(o.Tags, prop)) && o.Expect == "unsat" {
				n++
			}
		}
		fnSumm = append(fnSumm, fmt.Sprintf("%s (%d obligations)", r.Key, n))
	}
	assumptions := []string{
		"go/packages + go/types + go/ssa (x/tools v0.29.0) represent the program the Go compiler compiles; SMT solvers are sound for unsat",
		"the VC generator (/verif/engine) is trusted; mitigated by vacuity guards and the must-fail selftest corpus",
		"int/int64 arithmetic is mathematical (no overflow obligations); narrower and unsigned integer types are modelled exactly modulo 2^w",
		"slice capacities are at most 2^48; memory is not exhausted; the garbage collector and stack growth are not modelled",
		"LNil/LTrue/LFalse are never reassigned after package initialisation",
		"map keys: NaN excluded and +0/-0 identified (SMT array index equality)",
	}
	for _, a := range e.db.Assumes {
		assumptions = append(assumptions, a)
	}
	for _, k := range e.db.Order {
		ct := e.db.Contracts[k]
		if ct.Opaque && (prop == "" || contractHasTag(ct, prop) || len(ct.Tags) == 0) {
			why := ct.KeyKind
			if ct.Outside != "" {
				why = "outside-subset: " + ct.Outside
			}
			assumptions = append(assumptions, fmt.Sprintf("assumed contract (%s) of %s", why, strings.TrimPrefix(k, "extern ")))
		}
	}
	if len(abstracted) > 0 {
		assumptions = append(assumptions, fmt.Sprintf("%d instructions abstracted by unconstrained values (sound over-approximation): %s", len(abstracted), strings.Join(uniq(abstracted, 8), "; ")))
	}
	if opaque > 0 {
		assumptions = append(assumptions, fmt.Sprintf("%d call sites without contract treated as havoc-everything", opaque))
	}
	var solverList []string
	for s, n := range bySolver {
		solverList = append(solverList, fmt.Sprintf("%s:%d", s, n))
	}
	sort.Strings(solverList)
	cov := map[string]interface{}{
		"obligations":              nObl,
		"discharged":               nDis,
		"checker_cmd":              fmt.Sprintf("/verif/bin/gverif check --property %s --tier %s", prop, tier),
		"trusted_base":             []string{"golang.org/x/tools v0.29.0 go/ssa", "z3 4.8.12", "z3 5.1.0", "cvc5 1.0.3", "/verif/engine VC generator"},
		"functions_under_contract": fnSumm,
		"discharged_by":            solverList,
		"solver_time_s":            solverSecs,
		"vacuity_guards":           nVac,
		"samples":                  samples,
		"known_findings_reported":  len(knownSeen),
		"lost_proofs":              len(losts),
	}
	rep.Evidence = map[string]interface{}{
		"property_id": prop, "tier": tier, "seed": seed, "level": "proof", "coverage": cov,
		"assumptions": assumptions, "wall_s": wall, "violations": rep.Violations,
	}
	rep.Lines = append(rep.Lines, fmt.Sprintf("gverif: property=%s functions=%d obligations=%d discharged=%d vacuity-guards=%d known=%d violations=%d wall=%.1fs",
		prop, len(keys), nObl, nDis, nVac, len(knownSeen), rep.Violations, wall))
	if verbose {
		for _, o := range obls {
			rep.Lines = append(rep.Lines, fmt.Sprintf("  %-8s %-7s %.2fs %s", o.Result.Status, o.Kind, o.Result.Secs, o.Name))
		}
	}
	return rep
}

func uniq(in []string, max int) []string {
	seen := map[string]bool{}
	var out []string
	for _, s := range in {
		if !seen[s] {
			seen[s] = true
			out = append(out, s)
			if len(out) >= max {
				break
			}
		}
	}
	return out
}

func writeReplayFile(path string, o *Obligation, prop string) {
	var sb strings.Builder
	fmt.Fprintf(&sb, "obligation: %s\nproperty: %s\nkind: %s\nwhere: %s\nclause: %s\n", o.Name, prop, o.Kind, o.Where, o.Desc)
	if o.Expect == "notunsat" {
		fmt.Fprintf(&sb, "expected: satisfiable (vacuity guard) but the solver proved it unsatisfiable: the hypotheses are contradictory or the exit became unreachable\n")
	}
	fmt.Fprintf(&sb, "final: %s (%s)\n\n", o.Result.Status, o.Result.Solver)
	for _, r := range o.All {
		fmt.Fprintf(&sb, "--- %s: %s (%.2fs)\n%s\n", r.Solver, r.Status, r.Secs, r.Output)
	}
	if len(o.All) == 0 {
		fmt.Fprintf(&sb, "--- %s\n%s\n", o.Result.Solver, o.Result.Output)
	}
	if o.Expect == "unsat" && !o.Static && o.RawQuery == "" {
		if cand := candidateModel(o); cand != "" {
			fmt.Fprintf(&sb, "\n--- candidate counterexample (quantified hypotheses dropped; may be spurious)\n%s\n", cand)
		}
	}
	os.WriteFile(path, []byte(sb.String()), 0o644)
}

// candidateModel runs counterexample mode and returns the interesting part of the model as text.
func candidateModel(o *Obligation) string {
	q, _ := o.cexQuery()
	dir, err := os.MkdirTemp("", "gverif-cex-")
	if err != nil {
		return ""
	}
	defer os.RemoveAll(dir)
	file := filepath.Join(dir, "cex.smt2")
	os.WriteFile(file, []byte(q), 0o644)
	r := runSolver(solvers[0], file, 5)
	if r.Status != "sat" {
		return "(no candidate: solver answered " + r.Status + " on the quantifier-free weakening)"
	}
	o.Model = parseModel(r.Output)
	var keys []string
	for k := range o.Model {
		keys = append(keys, k)
	}
	sort.Strings(keys)
	var sb strings.Builder
	for _, k := range keys {
		if strings.HasPrefix(k, "p_") || strings.HasPrefix(k, "fv_") || strings.HasPrefix(k, "t") || strings.HasPrefix(k, "r_") || strings.HasPrefix(k, "lp_") {
			fmt.Fprintf(&sb, "  %s = %s\n", k, o.Model[k])
		}
	}
	return sb.String()
}

// parseModel parses the answer of (get-value (...)): ((name value) (name value) ...)
func parseModel(out string) map[string]string {
	m := map[string]string{}
	i := strings.Index(out, "((")
	if i < 0 {
		return m
	}
	s := out[i+1:]
	depth := 0
	start := -1
	for j := 0; j < len(s); j++ {
		switch s[j] {
		case '(':
			if depth == 0 {
				start = j
			}
			depth++
		case ')':
			depth--
			if depth == 0 && start >= 0 {
				item := s[start+1 : j]
				if sp := strings.IndexAny(item, " \n"); sp > 0 {
					m[item[:sp]] = strings.Join(strings.Fields(item[sp+1:]), " ")
				}
				start = -1
			}
			if depth < 0 {
				return m
			}
		}
	}
	return m
}

// tryReplay attempts to turn the solver model into a failing input of the real code (replay.go).
func tryReplay(e *Engine, o *Obligation, path string) bool {
	return replayObligation(e, o, path)
}

// SelfTest is the result of re-running the seeded property-breaking changes of one property (thorough tier).
type SelfTest struct {
	Seeds    int      `json:"seeds"`
	Detected int      `json:"detected"`
	Missed   []string `json:"missed"`
	Rule     string   `json:"rule"`
	Lines    []string `json:"-"`
}

// selfTest copies /repo to a scratch directory per seeded change of the property (/verif/seeded/<name>/patch.diff with
// meta.json .property == prop), applies the change there, runs the quick check on the copy and records whether it
// reports a violation. A missed seed is not a violation of the property; it is reported on a SELFTEST line and in the
// evidence so that a weakened check is visible.
func selfTest(prop, verifDir string) *SelfTest {
	st := &SelfTest{Missed: []string{}, Rule: "each seeded change (written by a sub-agent from the property text alone; compiles and passes the 81 tests) is applied to a scratch copy of /repo and the quick check must report a violation"}
	dirs, _ := filepath.Glob(filepath.Join(verifDir, "seeded", "*", "meta.json"))
	sort.Strings(dirs)
	exe, err := os.Executable()
	if err != nil {
		return st
	}
	for _, mf := range dirs {
		b, err := os.ReadFile(mf)
		if err != nil {
			continue
		}
		var meta struct {
			Property string `json:"property"`
		}
		if json.Unmarshal(b, &meta) != nil || meta.Property != prop {
			continue
		}
		dir := filepath.Dir(mf)
		name := filepath.Base(dir)
		scratch, err := os.MkdirTemp("/var/tmp", "gverif-self-")
		if err != nil {
			continue
		}
		ok := func() bool {
			defer os.RemoveAll(scratch)
			if out, err := exec.Command("cp", "-r", "/repo/.", scratch+"/").CombinedOutput(); err != nil {
				st.Lines = append(st.Lines, fmt.Sprintf("SELFTEST: seed=%s cannot copy /repo: %s", name, out))
				return false
			}
			os.RemoveAll(filepath.Join(scratch, ".git"))
			pf, err := os.Open(filepath.Join(dir, "patch.diff"))
			if err != nil {
				return false
			}
			defer pf.Close()
			pc := exec.Command("patch", "-s", "-p1")
			pc.Dir = scratch
			pc.Stdin = pf
			if out, err := pc.CombinedOutput(); err != nil {
				st.Lines = append(st.Lines, fmt.Sprintf("SELFTEST: seed=%s patch does not apply: %s", name, strings.TrimSpace(string(out))))
				return false
			}
			cmd := exec.Command(exe, "check", "--property", prop, "--tier", "quick", "--repo", scratch, "--evidence", os.DevNull, "--verif", filepath.Join(scratch, ".verif"))
			out, _ := cmd.CombinedOutput()
			return strings.Contains(string(out), "VIOLATION property="+prop)
		}()
		st.Seeds++
		if ok {
			st.Detected++
		} else {
			st.Missed = append(st.Missed, name)
			st.Lines = append(st.Lines, fmt.Sprintf("SELFTEST: seed=%s property=%s NOT detected by the check (recorded in seeded/RESULTS.tsv and DESIGN.md section 13)", name, prop))
		}
	}
	st.Lines = append(st.Lines, fmt.Sprintf("SELFTEST: property=%s seeded changes detected %d/%d", prop, st.Detected, st.Seeds))
	return st
}

// cmdReplay prints a replay file and, when a generated Go test belongs to it, re-runs that test on the real code.
// Exit 1 when the violation is confirmed again, 0 otherwise.
func cmdReplay(args []string) int {
	if len(args) < 1 {
		fmt.Fprintln(os.Stderr, "usage: gverif replay <replay file>")
		return 2
	}
	path := args[0]
	b, err := os.ReadFile(path)
	if err != nil {
		fmt.Fprintln(os.Stderr, err)
		return 2
	}
	fmt.Print(string(b))
	base := strings.TrimSuffix(path, ".txt")
	ovFile := base + "_overlay.json"
	ob, err := os.ReadFile(ovFile)
	if err != nil {
		fmt.Println("\n(no generated test belongs to this obligation: the violation was reported without a failing input)")
		return 0
	}
	var ov struct{ Replace map[string]string }
	if json.Unmarshal(ob, &ov) != nil || len(ov.Replace) == 0 {
		return 0
	}
	dir := ""
	for k := range ov.Replace {
		dir = filepath.Dir(k)
	}
	cmd := exec.Command("go", "test", "-overlay", ovFile, "-vet=off", "-count=1", "-timeout", "60s", "-run", "^TestGverifReplay$", ".")
	cmd.Dir = dir
	cmd.Env = append(os.Environ(), "GOFLAGS=-mod=mod", "GOPROXY=off", "GOSUMDB=off", "GOTOOLCHAIN=local")
	out, _ := cmd.CombinedOutput()
	fmt.Printf("\n--- re-run now in %s\n%s", dir, out)
	if strings.Contains(string(out), "GVERIF-CONFIRMED") {
		return 1
	}
	return 0
}
