package main

// Contract files: parser for the //@ comment language (DESIGN.md §3).

import (
	"fmt"
	"math/big"
	"os"
	"path/filepath"
	"regexp"
	"strings"
)

// ---------- expression AST ----------

type Binder struct {
	Name string
	Type string // spec type text: int, LValue, *T, string, bool, float
}

type Expr struct {
	Op   string // see below
	Args []*Expr
	Name string   // ident / field / call name
	Int  *big.Int // int literal
	Str  string   // string literal
	Vars []Binder // quantifier binders
	Src  string   // source text (for messages)
}

// Ops: "int","str","id","nil","true","false","result"(Name: "", "0","1"...)
//      "un!","un-","un&"
//      "+","-","*","/","%","&","|","==","!=","<","<=",">",">=","&&","||","==>","<==>"
//      "field"(Args[0], Name) "index"(Args[0],Args[1]) "slice"(Args[0],lo,hi; nil allowed)
//      "call"(Name, Args) "mcall"(Args[0]=recv, Name, Args[1:])
//      "forall","exists"(Vars, Args[0]) "old"(Args[0]) "ite"(3 args)

func (e *Expr) String() string {
	if e == nil {
		return "<nil>"
	}
	if e.Src != "" {
		return e.Src
	}
	return e.Op
}

type tok struct {
	kind string // "id","int","str","op","eof"
	text string
	pos  int
}

type lexer struct {
	src  string
	toks []tok
	p    int
}

var opList = []string{"<==>", "==>", "::", "==", "!=", "<=", ">=", "&&", "||", "<<", ">>", "&^",
	"+", "-", "*", "/", "%", "&", "|", "<", ">", "!", "(", ")", "[", "]", ",", ".", ":", "^"}

func lexSpec(src string) ([]tok, error) {
	var toks []tok
	i := 0
	for i < len(src) {
		c := src[i]
		if c == ' ' || c == '\t' || c == '\n' {
			i++
			continue
		}
		if c == '"' {
			j := i + 1
			var sb strings.Builder
			for j < len(src) && src[j] != '"' {
				if src[j] == '\\' && j+1 < len(src) {
					j++
					switch src[j] {
					case 'n':
						sb.WriteByte('\n')
					case 't':
						sb.WriteByte('\t')
					default:
						sb.WriteByte(src[j])
					}
				} else {
					sb.WriteByte(src[j])
				}
				j++
			}
			if j >= len(src) {
				return nil, fmt.Errorf("unterminated string in %q", src)
			}
			toks = append(toks, tok{"str", sb.String(), i})
			i = j + 1
			continue
		}
		if c >= '0' && c <= '9' {
			j := i
			for j < len(src) && (isIdentChar(src[j])) {
				j++
			}
			toks = append(toks, tok{"int", src[i:j], i})
			i = j
			continue
		}
		if isIdentStart(c) {
			j := i
			for j < len(src) && isIdentChar(src[j]) {
				j++
			}
			toks = append(toks, tok{"id", src[i:j], i})
			i = j
			continue
		}
		matched := false
		for _, op := range opList {
			if strings.HasPrefix(src[i:], op) {
				toks = append(toks, tok{"op", op, i})
				i += len(op)
				matched = true
				break
			}
		}
		if !matched {
			return nil, fmt.Errorf("bad character %q in %q", c, src)
		}
	}
	toks = append(toks, tok{"eof", "", len(src)})
	return toks, nil
}

func isIdentStart(c byte) bool {
	return c == '_' || c == '$' || (c >= 'a' && c <= 'z') || (c >= 'A' && c <= 'Z')
}
func isIdentChar(c byte) bool { return isIdentStart(c) || (c >= '0' && c <= '9') }

type parser struct {
	src  string
	toks []tok
	p    int
}

func parseExpr(src string) (*Expr, error) {
	toks, err := lexSpec(src)
	if err != nil {
		return nil, err
	}
	ps := &parser{src: src, toks: toks}
	var e *Expr
	func() {
		defer func() {
			if r := recover(); r != nil {
				if pe, ok := r.(parseErr); ok {
					err = fmt.Errorf("%s in %q", string(pe), src)
					return
				}
				panic(r)
			}
		}()
		e = ps.expr()
		if ps.peek().kind != "eof" {
			ps.fail("unexpected token " + ps.peek().text)
		}
	}()
	if err != nil {
		return nil, err
	}
	return e, nil
}

type parseErr string

func (ps *parser) fail(msg string) { panic(parseErr(msg)) }
func (ps *parser) peek() tok       { return ps.toks[ps.p] }
func (ps *parser) next() tok       { t := ps.toks[ps.p]; ps.p++; return t }
func (ps *parser) isOp(s string) bool {
	t := ps.peek()
	return t.kind == "op" && t.text == s
}
func (ps *parser) expectOp(s string) {
	if !ps.isOp(s) {
		ps.fail("expected " + s + " got " + ps.peek().text)
	}
	ps.p++
}
func (ps *parser) mk(start int, e *Expr) *Expr {
	end := ps.toks[ps.p].pos
	if ps.p > 0 && ps.p <= len(ps.toks) {
		end = ps.toks[ps.p].pos
	}
	if start <= end && end <= len(ps.src) {
		e.Src = strings.TrimSpace(ps.src[start:end])
	}
	return e
}

func (ps *parser) expr() *Expr {
	t := ps.peek()
	if t.kind == "id" && (t.text == "forall" || t.text == "exists") {
		start := t.pos
		ps.next()
		var vars []Binder
		for {
			n := ps.next()
			if n.kind != "id" {
				ps.fail("binder name expected")
			}
			ty := ps.typeText()
			vars = append(vars, Binder{n.text, ty})
			if ps.isOp(",") {
				ps.next()
				continue
			}
			break
		}
		ps.expectOp("::")
		body := ps.expr()
		return ps.mk(start, &Expr{Op: t.text, Vars: vars, Args: []*Expr{body}})
	}
	return ps.iff()
}

func (ps *parser) typeText() string {
	var sb strings.Builder
	for ps.isOp("*") || ps.isOp("[") {
		if ps.isOp("*") {
			ps.next()
			sb.WriteString("*")
		} else {
			ps.next()
			ps.expectOp("]")
			sb.WriteString("[]")
		}
	}
	n := ps.next()
	if n.kind != "id" {
		ps.fail("type name expected")
	}
	sb.WriteString(n.text)
	if ps.isOp(".") {
		ps.next()
		m := ps.next()
		sb.WriteString("." + m.text)
	}
	return sb.String()
}

func (ps *parser) iff() *Expr {
	start := ps.peek().pos
	l := ps.implies()
	for ps.isOp("<==>") {
		ps.next()
		r := ps.implies()
		l = ps.mk(start, &Expr{Op: "<==>", Args: []*Expr{l, r}})
	}
	return l
}

func (ps *parser) implies() *Expr {
	start := ps.peek().pos
	l := ps.or()
	if ps.isOp("==>") {
		ps.next()
		var r *Expr
		t := ps.peek()
		if t.kind == "id" && (t.text == "forall" || t.text == "exists") {
			r = ps.expr()
		} else {
			r = ps.implies()
		}
		return ps.mk(start, &Expr{Op: "==>", Args: []*Expr{l, r}})
	}
	return l
}

func (ps *parser) binLevel(ops []string, sub func() *Expr) *Expr {
	start := ps.peek().pos
	l := sub()
	for {
		found := ""
		for _, o := range ops {
			if ps.isOp(o) {
				found = o
				break
			}
		}
		if found == "" {
			return l
		}
		ps.next()
		var r *Expr
		t := ps.peek()
		if (found == "&&" || found == "||") && t.kind == "id" && (t.text == "forall" || t.text == "exists") {
			r = ps.expr()
		} else {
			r = sub()
		}
		l = ps.mk(start, &Expr{Op: found, Args: []*Expr{l, r}})
	}
}

func (ps *parser) or() *Expr  { return ps.binLevel([]string{"||"}, ps.and) }
func (ps *parser) and() *Expr { return ps.binLevel([]string{"&&"}, ps.cmp) }
func (ps *parser) cmp() *Expr {
	return ps.binLevel([]string{"==", "!=", "<=", ">=", "<", ">"}, ps.add)
}
func (ps *parser) add() *Expr { return ps.binLevel([]string{"+", "-", "|", "^"}, ps.mul) }
func (ps *parser) mul() *Expr {
	return ps.binLevel([]string{"*", "/", "%", "&^", "&", "<<", ">>"}, ps.unary)
}

func (ps *parser) unary() *Expr {
	start := ps.peek().pos
	if ps.isOp("!") {
		ps.next()
		return ps.mk(start, &Expr{Op: "un!", Args: []*Expr{ps.unary()}})
	}
	if ps.isOp("-") {
		ps.next()
		return ps.mk(start, &Expr{Op: "un-", Args: []*Expr{ps.unary()}})
	}
	if ps.isOp("&") {
		ps.next()
		return ps.mk(start, &Expr{Op: "un&", Args: []*Expr{ps.unary()}})
	}
	return ps.postfix()
}

func (ps *parser) postfix() *Expr {
	start := ps.peek().pos
	e := ps.primary()
	for {
		if ps.isOp(".") {
			ps.next()
			n := ps.next()
			if n.kind != "id" {
				ps.fail("field name expected")
			}
			if ps.isOp("(") {
				ps.next()
				args := []*Expr{e}
				args = append(args, ps.args()...)
				e = ps.mk(start, &Expr{Op: "mcall", Name: n.text, Args: args})
			} else {
				e = ps.mk(start, &Expr{Op: "field", Name: n.text, Args: []*Expr{e}})
			}
			continue
		}
		if ps.isOp("[") {
			ps.next()
			var lo, hi *Expr
			if ps.isOp(":") {
				ps.next()
				if !ps.isOp("]") {
					hi = ps.expr()
				}
				ps.expectOp("]")
				e = ps.mk(start, &Expr{Op: "slice", Args: []*Expr{e, lo, hi}})
				continue
			}
			lo = ps.expr()
			if ps.isOp(":") {
				ps.next()
				if !ps.isOp("]") {
					hi = ps.expr()
				}
				ps.expectOp("]")
				e = ps.mk(start, &Expr{Op: "slice", Args: []*Expr{e, lo, hi}})
				continue
			}
			ps.expectOp("]")
			e = ps.mk(start, &Expr{Op: "index", Args: []*Expr{e, lo}})
			continue
		}
		return e
	}
}

func (ps *parser) args() []*Expr {
	var args []*Expr
	if ps.isOp(")") {
		ps.next()
		return args
	}
	for {
		args = append(args, ps.expr())
		if ps.isOp(",") {
			ps.next()
			continue
		}
		ps.expectOp(")")
		return args
	}
}

func (ps *parser) primary() *Expr {
	t := ps.next()
	start := t.pos
	switch t.kind {
	case "int":
		v, ok := new(big.Int).SetString(t.text, 0)
		if !ok {
			ps.fail("bad integer " + t.text)
		}
		return ps.mk(start, &Expr{Op: "int", Int: v})
	case "str":
		return ps.mk(start, &Expr{Op: "str", Str: t.text})
	case "id":
		switch t.text {
		case "nil":
			return ps.mk(start, &Expr{Op: "nil"})
		case "true", "false":
			return ps.mk(start, &Expr{Op: t.text})
		case "old":
			ps.expectOp("(")
			e := ps.expr()
			ps.expectOp(")")
			return ps.mk(start, &Expr{Op: "old", Args: []*Expr{e}})
		case "ite":
			ps.expectOp("(")
			a := ps.args()
			if len(a) != 3 {
				ps.fail("ite needs 3 arguments")
			}
			return ps.mk(start, &Expr{Op: "ite", Args: a})
		}
		if strings.HasPrefix(t.text, "result") {
			suffix := t.text[len("result"):]
			if suffix == "" || (len(suffix) == 1 && suffix[0] >= '0' && suffix[0] <= '9') {
				return ps.mk(start, &Expr{Op: "result", Name: suffix})
			}
		}
		if ps.isOp("(") {
			ps.next()
			a := ps.args()
			return ps.mk(start, &Expr{Op: "call", Name: t.text, Args: a})
		}
		return ps.mk(start, &Expr{Op: "id", Name: t.text})
	case "op":
		if t.text == "(" {
			e := ps.expr()
			ps.expectOp(")")
			return e
		}
	}
	ps.fail("unexpected token " + t.text)
	return nil
}

// ---------- contract blocks ----------

type Clause struct {
	Kind    string // requires ensures invariant decreases raises assert lemma
	E       *Expr
	Tags    []string // property ids; empty = block tags
	Label   string   // optional user label  e.g. ensures "name": E
	Name    string   // let: the ghost constant's name
	Assumed bool     // ensures clause used by callers but not proved (keyword assumes)
	Line    string   // file:line
}

type LoopSpec struct {
	Key        string // "1","2"... or label name
	Invariants []*Clause
	Decreases  *Clause
	Exits      []*Clause // loop K exit E: holds on the edge leaving the loop from its header
	Inherit    string
}

type Define struct {
	Name   string
	Params []Binder
	Ret    string
	Body   *Expr
	Line   string
}

type ModItem struct {
	Kind string // "everything","nothing","field"(x.f) ,"elems"(x.f[*]),"tfield"(T.f),"telems"(elems(T)),"fields"(x.*), "tfields"(T.*), "cell"(*p)
	E    *Expr  // object expression (for field/elems/fields/cell)
	Name string // field name or type name
	Src  string
}

type Contract struct {
	Key         string // function key
	KeyKind     string // func iface extern trusted
	Tags        []string
	Requires    []*Clause
	Ensures     []*Clause
	Raises      *Clause // raises when E
	NoRaise     bool
	NoReturn    bool
	Inline      bool
	Pure        bool
	Opaque      bool // body not verified (trusted/extern/outside-subset)
	Outside     string
	Modifies    []ModItem
	HasMod      bool
	Loops       map[string]*LoopSpec
	Asserts     []*Clause
	HasFrom     bool // has a from@ clause: only the tail of the function is verified
	OnlyAsserts bool // only the assert@ clauses are obligations; everything else about the function is unverified
	Mode        string
	MayPanic    []string
	Bounded     bool
	File, Line  string
	NoSafe      bool // skip SAFE obligations (must be listed as assumption)
	Unroll      int
	ResultName  string
	Implements  string
	Logged      bool     // calls are appended to the ghost call log
	LogPre      []*Expr  // extra values recorded from the pre-state (positions 10, 11, ...)
	LogPost     []*Expr  // extra values recorded from the post-state (result positions 10, 11, ...)
	Cuts        []string // source-text anchors: paths reaching such a line are not verified (listed)
}

type Lemma struct {
	Name string
	E    *Expr
	Tags []string
	Raw  string // raw SMT (for fp lemmas)
	Line string
}

// StructDecl is a whole-package structural claim (constglobal / immutable) checked by a scan of every SSA function.
type StructDecl struct {
	Kind string // constglobal | immutable | initvalue
	Name string
	Vals []string // initvalue: the function names the slice literal must list, in order
	Tags []string
	Line string
}

type Abstract struct {
	Name   string // $sp
	Iface  string // callFrameStack
	Params []Binder
	Ret    string
}

type Uninterp struct {
	Name   string
	Params []Binder
	Ret    string
}

type SpecDB struct {
	ConstGlobals map[string]bool
	Immutable    map[string]bool // "T.f": field written only while its object is being constructed
	Structural   []*StructDecl
	Uninterps    map[string]*Uninterp
	Axioms       []*Lemma
	Abstracts    map[string]*Abstract
	Contracts    map[string]*Contract
	Order        []string
	Defines      map[string]*Define
	Invs         map[string]*Define // named invariants = defines returning bool
	Lemmas       []*Lemma
	Assumes      []string // free-text assumptions collected (trusted/extern/outside)
	Errors       []string
}

var keyLine = regexp.MustCompile(`^(func|iface|extern|trusted|dyn)\s+(.+?)\s*(\[[A-Z0-9 ,]+\])?\s*$`)
var tagsRe = regexp.MustCompile(`^(\w[\w-]*)\[([A-Z0-9, ]+)\]`)

var clauseKeywords = map[string]bool{"func": true, "iface": true, "extern": true, "trusted": true, "dyn": true, "define": true,
	"lemma": true, "requires": true, "ensures": true, "assumes": true, "entry-assumes": true, "raises": true, "noraise": true, "noreturn": true,
	"modifies": true, "loop": true, "assert": true, "mode": true, "inline": true, "pure": true,
	"outside-subset": true, "assume": true, "may-panic": true, "nosafe": true, "end": true, "bounded": true,
	"abstract": true, "implements": true, "cut": true, "uninterp": true, "axiom": true, "logged": true, "constglobal": true, "immutable": true, "initvalue": true, "let": true, "from": true, "only-asserts": true}

func splitTags(s string) []string {
	s = strings.Trim(s, "[] ")
	f := strings.FieldsFunc(s, func(r rune) bool { return r == ' ' || r == ',' })
	return f
}

func loadSpecFiles(repo string) (*SpecDB, error) {
	db := &SpecDB{Contracts: map[string]*Contract{}, Defines: map[string]*Define{}, Invs: map[string]*Define{}, Abstracts: map[string]*Abstract{}, Uninterps: map[string]*Uninterp{}, ConstGlobals: map[string]bool{}, Immutable: map[string]bool{}}
	files := []string{"contracts_verif.go", "pm/contracts_verif.go", "parse/contracts_verif.go"}
	more, _ := filepath.Glob(filepath.Join(repo, "contracts_verif_*.go"))
	for _, m := range more {
		rel, _ := filepath.Rel(repo, m)
		files = append(files, rel)
	}
	for _, f := range files {
		p := filepath.Join(repo, f)
		data, err := os.ReadFile(p)
		if err != nil {
			continue
		}
		prefix := ""
		if strings.HasPrefix(f, "pm/") {
			prefix = "pm."
		} else if strings.HasPrefix(f, "parse/") {
			prefix = "parse."
		}
		db.parseFile(f, prefix, string(data))
	}
	db.resolveImplements()
	if len(db.Errors) > 0 {
		return db, fmt.Errorf("contract file errors:\n  %s", strings.Join(db.Errors, "\n  "))
	}
	return db, nil
}

func stripComment(s string) string {
	// strip trailing "// ..." comments that are outside string literals
	in := false
	for i := 0; i+1 < len(s); i++ {
		if s[i] == '"' {
			in = !in
		}
		if !in && s[i] == '/' && s[i+1] == '/' {
			return strings.TrimSpace(s[:i])
		}
	}
	return strings.TrimSpace(s)
}

func (db *SpecDB) parseFile(fname, prefix, data string) {
	type item struct {
		text string
		line int
	}
	var items []item
	for i, ln := range strings.Split(data, "\n") {
		t := strings.TrimSpace(ln)
		if !strings.HasPrefix(t, "//@") {
			continue
		}
		body := stripComment(strings.TrimSpace(t[3:]))
		if body == "" {
			continue
		}
		first := body
		if j := strings.IndexAny(body, " \t[@"); j >= 0 {
			first = body[:j]
		}
		if clauseKeywords[first] {
			items = append(items, item{body, i + 1})
		} else if len(items) > 0 {
			items[len(items)-1].text += " " + body
		} else {
			db.Errors = append(db.Errors, fmt.Sprintf("%s:%d: continuation without clause", fname, i+1))
		}
	}
	var cur *Contract
	for _, it := range items {
		loc := fmt.Sprintf("%s:%d", fname, it.line)
		errf := func(format string, a ...interface{}) {
			db.Errors = append(db.Errors, loc+": "+fmt.Sprintf(format, a...))
		}
		body := it.text
		kw := body
		rest := ""
		if j := strings.IndexAny(body, " \t"); j >= 0 {
			kw = body[:j]
			rest = strings.TrimSpace(body[j:])
		}
		if strings.HasPrefix(body, "cut@") {
			kw = "cut"
		} else if strings.HasPrefix(body, "assert@") {
			kw = "assert"
		} else if strings.HasPrefix(body, "let@") {
			kw = "let"
		} else if strings.HasPrefix(body, "from@") {
			kw = "from"
		}
		var ctags []string
		if m := tagsRe.FindStringSubmatch(body); m != nil {
			kw = m[1]
			ctags = splitTags(m[2])
			rest = strings.TrimSpace(body[len(m[0]):])
		}
		pe := func(src string) *Expr {
			e, err := parseExpr(src)
			if err != nil {
				errf("%v", err)
				return &Expr{Op: "true"}
			}
			return e
		}
		switch kw {
		case "func", "iface", "extern", "trusted", "dyn":
			m := keyLine.FindStringSubmatch(body)
			if m == nil {
				errf("bad key line %q", body)
				continue
			}
			key := m[2]
			if kw == "func" || kw == "trusted" {
				key = prefix + key
			}
			if kw == "iface" {
				key = "iface " + prefix + key
			}
			if kw == "extern" {
				key = "extern " + key
			}
			if kw == "dyn" {
				key = "dyn " + prefix + key
			}
			cur = &Contract{Key: key, KeyKind: kw, Tags: splitTags(m[3]), Loops: map[string]*LoopSpec{}, File: fname, Line: loc}
			if kw == "extern" || kw == "trusted" || kw == "dyn" {
				cur.Opaque = true
			}
			if _, dup := db.Contracts[key]; dup {
				errf("duplicate contract for %s", key)
			}
			db.Contracts[key] = cur
			db.Order = append(db.Order, key)
		case "end":
			cur = nil
		case "constglobal":
			for _, n := range strings.Fields(rest) {
				db.ConstGlobals[prefix+n] = true
				db.Structural = append(db.Structural, &StructDecl{Kind: "constglobal", Name: prefix + n, Tags: ctags, Line: loc})
			}
		case "initvalue":
			// initvalue g = f1 f2 ... : package variable g (a slice of functions) is initialised to exactly [f1, f2, ...]
			// and neither g nor its elements are assigned anywhere else
			eq := strings.Index(rest, "=")
			if eq < 0 {
				errf("initvalue needs '='")
				continue
			}
			n := strings.TrimSpace(rest[:eq])
			db.ConstGlobals[prefix+n] = true
			db.Structural = append(db.Structural, &StructDecl{Kind: "initvalue", Name: prefix + n, Tags: ctags, Line: loc, Vals: strings.Fields(rest[eq+1:])})
		case "immutable":
			// immutable T.f ... : the field is stored only into objects allocated in the storing function (construction)
			for _, n := range strings.Fields(rest) {
				db.Immutable[prefix+n] = true
				db.Structural = append(db.Structural, &StructDecl{Kind: "immutable", Name: prefix + n, Tags: ctags, Line: loc})
			}
		case "uninterp":
			// uninterp name(p T, q U) R
			lp := strings.Index(rest, "(")
			rp := strings.LastIndex(rest, ")")
			if lp < 0 || rp < lp {
				errf("bad uninterp declaration %q", rest)
				continue
			}
			u := &Uninterp{Name: strings.TrimSpace(rest[:lp]), Ret: strings.TrimSpace(rest[rp+1:])}
			if ps := strings.TrimSpace(rest[lp+1 : rp]); ps != "" {
				for _, p := range strings.Split(ps, ",") {
					f := strings.Fields(p)
					if len(f) != 2 {
						errf("bad uninterp parameter %q", p)
						continue
					}
					u.Params = append(u.Params, Binder{f[0], f[1]})
				}
			}
			db.Uninterps[u.Name] = u
		case "axiom":
			c := strings.Index(rest, ":")
			if c < 0 {
				errf("axiom needs ':'")
				continue
			}
			db.Axioms = append(db.Axioms, &Lemma{Name: strings.TrimSpace(rest[:c]), E: pe(rest[c+1:]), Line: loc})
			db.Assumes = append(db.Assumes, fmt.Sprintf("axiom %s (assumed, about an uninterpreted spec function): %s", strings.TrimSpace(rest[:c]), strings.TrimSpace(rest[c+1:])))
		case "abstract":
			// abstract callFrameStack.$sp(self) int   |  abstract callFrameStack.$frame(self, i int) *callFrame
			lp := strings.Index(rest, "(")
			rp := strings.LastIndex(rest, ")")
			dot := strings.Index(rest, ".")
			if lp < 0 || rp < lp || dot < 0 || dot > lp {
				errf("bad abstract declaration %q", rest)
				continue
			}
			ab := &Abstract{Iface: strings.TrimSpace(rest[:dot]), Name: strings.TrimSpace(rest[dot+1 : lp]), Ret: strings.TrimSpace(rest[rp+1:])}
			for i, p := range strings.Split(rest[lp+1:rp], ",") {
				f := strings.Fields(p)
				if i == 0 {
					continue
				}
				if len(f) != 2 {
					errf("bad abstract parameter %q", p)
					continue
				}
				ab.Params = append(ab.Params, Binder{f[0], f[1]})
			}
			db.Abstracts[ab.Name] = ab
		case "define":
			// define name(p T, q U) R = expr
			eq := strings.Index(rest, "=")
			for eq >= 0 && eq+1 < len(rest) && (rest[eq+1] == '=' || (eq > 0 && strings.ContainsRune("!<>=", rune(rest[eq-1])))) {
				n := strings.Index(rest[eq+2:], "=")
				if n < 0 {
					eq = -1
					break
				}
				eq = eq + 2 + n
			}
			if eq < 0 {
				errf("define needs '='")
				continue
			}
			head := strings.TrimSpace(rest[:eq])
			bodyE := pe(rest[eq+1:])
			lp := strings.Index(head, "(")
			rp := strings.LastIndex(head, ")")
			if lp < 0 || rp < lp {
				errf("bad define head %q", head)
				continue
			}
			d := &Define{Name: strings.TrimSpace(head[:lp]), Body: bodyE, Ret: strings.TrimSpace(head[rp+1:]), Line: loc}
			ps := strings.TrimSpace(head[lp+1 : rp])
			if ps != "" {
				for _, p := range strings.Split(ps, ",") {
					f := strings.Fields(p)
					if len(f) != 2 {
						errf("bad define parameter %q", p)
						continue
					}
					d.Params = append(d.Params, Binder{f[0], f[1]})
				}
			}
			db.Defines[d.Name] = d
		case "lemma":
			// lemma name : expr      or lemma name smt: raw
			c := strings.Index(rest, ":")
			if c < 0 {
				errf("lemma needs ':'")
				continue
			}
			name := strings.TrimSpace(rest[:c])
			l := &Lemma{Name: name, Line: loc, Tags: ctags}
			if strings.HasSuffix(name, " smt") {
				l.Name = strings.TrimSpace(strings.TrimSuffix(name, " smt"))
				l.Raw = strings.TrimSpace(rest[c+1:])
			} else {
				l.E = pe(rest[c+1:])
			}
			db.Lemmas = append(db.Lemmas, l)
		default:
			if cur == nil {
				errf("clause %q outside a contract block", kw)
				continue
			}
			switch kw {
			case "requires", "ensures", "assumes", "entry-assumes":
				// assumes E: a postcondition that callers may use but that is NOT proved for the body (listed as an assumption)
				// entry-assumes E: a condition assumed to hold when the function is entered (a system invariant) that is NOT
				// checked at call sites (listed as an assumption)
				assumed := kw == "assumes" || kw == "entry-assumes"
				if kw == "assumes" {
					kw = "ensures"
				}
				if kw == "entry-assumes" {
					kw = "requires"
				}
				label := ""
				if strings.HasPrefix(rest, "\"") {
					if j := strings.Index(rest[1:], "\""); j >= 0 && strings.HasPrefix(strings.TrimSpace(rest[j+2:]), ":") {
						label = rest[1 : j+1]
						rest = strings.TrimSpace(strings.TrimSpace(rest[j+2:])[1:])
					}
				}
				cl := &Clause{Kind: kw, E: pe(rest), Tags: ctags, Label: label, Line: loc, Assumed: assumed}
				if assumed && kw == "ensures" {
					db.Assumes = append(db.Assumes, fmt.Sprintf("%s: postcondition assumed at call sites, not proved for the body: %s", cur.Key, rest))
				}
				if assumed && kw == "requires" {
					db.Assumes = append(db.Assumes, fmt.Sprintf("%s: entry condition assumed for the body, not checked at call sites (system invariant): %s", cur.Key, rest))
				}
				if kw == "requires" {
					cur.Requires = append(cur.Requires, cl)
				} else {
					cur.Ensures = append(cur.Ensures, cl)
				}
			case "raises":
				if !strings.HasPrefix(rest, "when") {
					errf("raises needs 'when'")
					continue
				}
				cur.Raises = &Clause{Kind: "raises", E: pe(strings.TrimSpace(rest[4:])), Tags: ctags, Line: loc}
			case "implements":
				cur.Implements = "iface " + prefix + rest
			case "cut":
				// cut@"source text"  reason
				r := body[strings.Index(body, "@\"")+2:]
				j := strings.Index(r, "\"")
				if !strings.Contains(body, "@\"") || j < 0 {
					errf("cut needs @\"anchor\"")
					continue
				}
				cur.Cuts = append(cur.Cuts, r[:j])
				db.Assumes = append(db.Assumes, fmt.Sprintf("%s: code from the line containing %q onwards is NOT verified (%s)", cur.Key, r[:j], strings.TrimSpace(r[j+1:])))
			case "logged":
				// logged [pre: E1, E2 ...] [; post: F1, F2 ...]
				cur.Logged = true
				for _, part := range strings.Split(rest, ";") {
					part = strings.TrimSpace(part)
					var dst *[]*Expr
					if strings.HasPrefix(part, "pre:") {
						dst = &cur.LogPre
						part = part[4:]
					} else if strings.HasPrefix(part, "post:") {
						dst = &cur.LogPost
						part = part[5:]
					} else {
						continue
					}
					for _, x := range splitTop(part) {
						if strings.TrimSpace(x) != "" {
							*dst = append(*dst, pe(x))
						}
					}
				}
			case "noraise":
				cur.NoRaise = true
			case "noreturn":
				cur.NoReturn = true
			case "inline":
				cur.Inline = true
			case "pure":
				cur.Pure = true
			case "nosafe":
				cur.NoSafe = true
				db.Assumes = append(db.Assumes, fmt.Sprintf("nosafe %s: implicit-panic obligations not generated (%s)", cur.Key, rest))
			case "bounded":
				cur.Bounded = true
			case "mode":
				cur.Mode = rest
			case "may-panic":
				cur.MayPanic = append(cur.MayPanic, strings.Trim(rest, "\""))
			case "outside-subset":
				cur.Outside = rest
				cur.Opaque = true
			case "assume":
				db.Assumes = append(db.Assumes, fmt.Sprintf("%s: %s", cur.Key, rest))
			case "modifies":
				cur.HasMod = true
				for _, part := range splitTop(rest) {
					part = strings.TrimSpace(part)
					if part == "" {
						continue
					}
					mi, err := parseModItem(part)
					if err != nil {
						errf("%v", err)
						continue
					}
					cur.Modifies = append(cur.Modifies, mi)
				}
			case "loop":
				f := strings.Fields(rest)
				if len(f) < 2 {
					errf("bad loop clause")
					continue
				}
				ls := cur.Loops[f[0]]
				if ls == nil {
					ls = &LoopSpec{Key: f[0]}
					cur.Loops[f[0]] = ls
				}
				r2 := strings.TrimSpace(strings.TrimPrefix(strings.TrimSpace(strings.TrimPrefix(rest, f[0])), f[1]))
				switch f[1] {
				case "invariant":
					ls.Invariants = append(ls.Invariants, &Clause{Kind: "invariant", E: pe(r2), Tags: ctags, Line: loc})
				case "exit":
					ls.Exits = append(ls.Exits, &Clause{Kind: "exit", E: pe(r2), Tags: ctags, Line: loc})
				case "decreases":
					ls.Decreases = &Clause{Kind: "decreases", E: pe(r2), Tags: ctags, Line: loc}
				case "inherit":
					ls.Inherit = r2
				default:
					errf("bad loop clause kind %q", f[1])
				}
			case "only-asserts":
				cur.OnlyAsserts = true
				db.Assumes = append(db.Assumes, fmt.Sprintf("%s: ONLY the assert@ clauses and the loop invariants they rest on are verified (%s); preconditions of its callees, implicit panics and its frame are not", cur.Key, rest))
			case "from":
				// from@"anchor" E : verification of this function starts at the anchored statement, in an arbitrary state
				// satisfying E; the code before it (and every exit not passing through it) is NOT verified
				q := "\""
				if strings.HasPrefix(body, "from@`") {
					q = "`"
				}
				r := body[len("from@")+1:]
				j := strings.Index(r, q)
				if j < 0 {
					errf("from anchor unterminated")
					continue
				}
				cur.Asserts = append(cur.Asserts, &Clause{Kind: "from", Label: r[:j], E: pe(r[j+1:]), Tags: ctags, Line: loc})
				cur.HasFrom = true
				db.Assumes = append(db.Assumes, fmt.Sprintf("%s: verified only from the statement containing %q onwards, starting in an arbitrary state with %s; the code before it and exits that do not pass it are NOT verified", cur.Key, r[:j], strings.TrimSpace(r[j+1:])))
			case "let":
				// let@"anchor" name = E : ghost constant holding the value of E just before the anchored statement
				q := "\""
				if strings.HasPrefix(body, "let@`") {
					q = "`"
				}
				r := body[len("let@")+1:]
				j := strings.Index(r, q)
				if j < 0 {
					errf("let anchor unterminated")
					continue
				}
				def := strings.TrimSpace(r[j+1:])
				eq := strings.Index(def, "=")
				if eq <= 0 {
					errf("let needs name = expr")
					continue
				}
				cur.Asserts = append(cur.Asserts, &Clause{Kind: "let", Label: r[:j], Name: strings.TrimSpace(def[:eq]), E: pe(def[eq+1:]), Tags: ctags, Line: loc})
			case "assert":
				// assert@"text" E
				if strings.HasPrefix(body, "assert@`") {
					// assert@`text with "quotes"` E
					r := body[len("assert@`"):]
					j := strings.Index(r, "`")
					if j < 0 {
						errf("assert anchor unterminated")
						continue
					}
					cur.Asserts = append(cur.Asserts, &Clause{Kind: "assert", Label: r[:j], E: pe(r[j+1:]), Tags: ctags, Line: loc})
					continue
				}
				if !strings.HasPrefix(rest, "@\"") && !strings.HasPrefix(body, "assert@\"") {
					errf("assert needs @\"anchor\"")
					continue
				}
				r := body[strings.Index(body, "@\"")+2:]
				j := strings.Index(r, "\"")
				if j < 0 {
					errf("assert anchor unterminated")
					continue
				}
				cur.Asserts = append(cur.Asserts, &Clause{Kind: "assert", Label: r[:j], E: pe(r[j+1:]), Tags: ctags, Line: loc})
			default:
				errf("unknown clause %q", kw)
			}
		}
	}
}

// resolveImplements copies the clauses of an interface contract into each implementing method's contract.
func (db *SpecDB) resolveImplements() {
	for _, k := range db.Order {
		ct := db.Contracts[k]
		if ct.Implements == "" {
			continue
		}
		ic := db.Contracts[ct.Implements]
		if ic == nil {
			db.Errors = append(db.Errors, fmt.Sprintf("%s: implements unknown %s", ct.Line, ct.Implements))
			continue
		}
		short := strings.TrimPrefix(ct.Implements, "iface ")
		for _, rq := range ic.Requires {
			ct.Requires = append(ct.Requires, rq)
		}
		for i, en := range ic.Ensures {
			c := *en
			c.Label = fmt.Sprintf("IFACE:%s/%d", short, i+1)
			if len(c.Tags) == 0 {
				c.Tags = ic.Tags
			}
			ct.Ensures = append(ct.Ensures, &c)
		}
		if ic.NoRaise {
			ct.NoRaise = true
		}
		if ic.Raises != nil && ct.Raises == nil {
			ct.Raises = ic.Raises
		}
		for _, t := range ic.Tags {
			found := false
			for _, u := range ct.Tags {
				if u == t {
					found = true
				}
			}
			if !found {
				ct.Tags = append(ct.Tags, t)
			}
		}
	}
}

// splitTop splits on commas that are not nested in () or [].
func splitTop(s string) []string {
	var out []string
	depth := 0
	last := 0
	for i, c := range s {
		switch c {
		case '(', '[':
			depth++
		case ')', ']':
			depth--
		case ',':
			if depth == 0 {
				out = append(out, s[last:i])
				last = i + 1
			}
		}
	}
	out = append(out, s[last:])
	return out
}

func parseModItem(s string) (ModItem, error) {
	mi := ModItem{Src: s}
	switch s {
	case "everything":
		mi.Kind = "everything"
		return mi, nil
	case "nothing":
		mi.Kind = "nothing"
		return mi, nil
	}
	if strings.HasPrefix(s, "ghost(") && strings.HasSuffix(s, ")") {
		e, err := parseExpr(s[6 : len(s)-1])
		if err != nil {
			return mi, err
		}
		mi.Kind = "ghost"
		mi.E = e
		return mi, nil
	}
	if strings.HasPrefix(s, "elems(") && strings.HasSuffix(s, ")") {
		mi.Kind = "telems"
		mi.Name = strings.TrimSpace(s[6 : len(s)-1])
		return mi, nil
	}
	if strings.HasPrefix(s, "type ") {
		// type T.f  or type T.*
		r := strings.TrimSpace(s[5:])
		j := strings.LastIndex(r, ".")
		if j < 0 {
			return mi, fmt.Errorf("bad modifies item %q", s)
		}
		mi.Name = r
		if r[j+1:] == "*" {
			mi.Kind = "tfields"
			mi.Name = r[:j]
		} else if strings.HasSuffix(r, "{*}") {
			mi.Kind = "tmap"
			mi.Name = strings.TrimSuffix(r, "{*}")
		} else if strings.HasSuffix(r, "[*]") {
			mi.Kind = "tfelems"
			mi.Name = strings.TrimSuffix(r, "[*]")
		} else {
			mi.Kind = "tfield"
		}
		return mi, nil
	}
	if strings.HasPrefix(s, "*") {
		e, err := parseExpr(s[1:])
		if err != nil {
			return mi, err
		}
		mi.Kind = "cell"
		mi.E = e
		return mi, nil
	}
	if strings.HasSuffix(s, "{*}") {
		e, err := parseExpr(s[:len(s)-3])
		if err != nil {
			return mi, err
		}
		mi.Kind = "map"
		mi.E = e
		return mi, nil
	}
	if strings.HasSuffix(s, "[*]") {
		e, err := parseExpr(s[:len(s)-3])
		if err != nil {
			return mi, err
		}
		mi.Kind = "elems"
		mi.E = e
		return mi, nil
	}
	if strings.HasSuffix(s, ".*") {
		e, err := parseExpr(s[:len(s)-2])
		if err != nil {
			return mi, err
		}
		mi.Kind = "fields"
		mi.E = e
		return mi, nil
	}
	e, err := parseExpr(s)
	if err != nil {
		return mi, err
	}
	if e.Op != "field" {
		return mi, fmt.Errorf("modifies item must be x.f, x.f[*], x.*, *p, type T.f, elems(T): %q", s)
	}
	mi.Kind = "field"
	mi.E = e.Args[0]
	mi.Name = e.Name
	return mi, nil
}
