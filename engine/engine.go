package main

// Engine: loading /repo, resolving function keys, driving per-function verification.

import (
	"fmt"
	"go/ast"
	"go/constant"
	"go/token"
	"go/types"
	"os"
	"sort"
	"strings"

	"golang.org/x/tools/go/packages"
	"golang.org/x/tools/go/ssa"
	"golang.org/x/tools/go/ssa/ssautil"
)

type Engine struct {
	repo      string
	fset      *token.FileSet
	prog      *ssa.Program
	pkgs      map[string]*ssa.Package // by package name: lua, pm, parse
	ppkgs     map[string]*packages.Package
	db        *SpecDB
	funcs     map[string]*ssa.Function
	fnKeys    map[*ssa.Function]string
	inlCache  map[*ssa.Function]bool
	srcCache  map[string][]string
	fnIDs     map[*ssa.Function]int
	typeCache map[string]types.Type
	typeIDs   map[string]int
	cgInit    map[string]string
}

func loadEngine(repo string) (*Engine, error) {
	e := &Engine{repo: repo, pkgs: map[string]*ssa.Package{}, ppkgs: map[string]*packages.Package{}, funcs: map[string]*ssa.Function{},
		fnKeys: map[*ssa.Function]string{}, inlCache: map[*ssa.Function]bool{}, srcCache: map[string][]string{}, fnIDs: map[*ssa.Function]int{}, typeCache: map[string]types.Type{}}
	cfg := &packages.Config{Mode: packages.LoadAllSyntax, Dir: repo, BuildFlags: []string{"-tags=verif"},
		Env: append(os.Environ(), "GOFLAGS=-mod=mod", "GOPROXY=off", "GOSUMDB=off", "GOTOOLCHAIN=local")}
	pkgs, err := packages.Load(cfg, ".", "./pm", "./parse")
	if err != nil {
		return nil, err
	}
	for _, p := range pkgs {
		if len(p.Errors) > 0 {
			return nil, fmt.Errorf("package %s does not type-check: %v", p.PkgPath, p.Errors[0])
		}
	}
	prog, spkgs := ssautil.AllPackages(pkgs, ssa.GlobalDebug|ssa.BuildSerially)
	prog.Build()
	e.prog = prog
	e.fset = prog.Fset
	for i, sp := range spkgs {
		if sp == nil {
			continue
		}
		e.pkgs[sp.Pkg.Name()] = sp
		e.ppkgs[sp.Pkg.Name()] = pkgs[i]
	}
	if e.pkgs["lua"] == nil {
		return nil, fmt.Errorf("package lua not loaded")
	}
	e.indexFunctions()
	db, err := loadSpecFiles(repo)
	e.db = db
	if err != nil {
		return e, err
	}
	return e, nil
}

func (e *Engine) pkgPrefix(p *ssa.Package) string {
	if p == nil || p.Pkg.Name() == "lua" {
		return ""
	}
	return p.Pkg.Name() + "."
}

func (e *Engine) indexFunctions() {
	for _, name := range []string{"lua", "pm", "parse"} {
		sp := e.pkgs[name]
		if sp == nil {
			continue
		}
		prefix := e.pkgPrefix(sp)
		for _, m := range sp.Members {
			switch x := m.(type) {
			case *ssa.Function:
				e.addFunc(prefix+x.Name(), x)
			case *ssa.Type:
				for _, t := range []types.Type{x.Type(), types.NewPointer(x.Type())} {
					ms := e.prog.MethodSets.MethodSet(t)
					for i := 0; i < ms.Len(); i++ {
						fn := e.prog.MethodValue(ms.At(i))
						if fn == nil || fn.Synthetic != "" {
							continue
						}
						recv := fn.Signature.Recv().Type()
						var key string
						if p, ok := recv.(*types.Pointer); ok {
							key = fmt.Sprintf("%s(*%s).%s", prefix, namedNameBare(p.Elem()), fn.Name())
						} else {
							key = fmt.Sprintf("%s(%s).%s", prefix, namedNameBare(recv), fn.Name())
						}
						e.addFunc(key, fn)
					}
				}
			}
		}
	}
	// jumpTable literals: map k-th element of the composite literal to opcode names
	e.indexJumpTable()
}

func namedNameBare(t types.Type) string {
	if n, ok := t.(*types.Named); ok {
		return n.Obj().Name()
	}
	return typeStr(t)
}

func (e *Engine) addFunc(key string, fn *ssa.Function) {
	if _, dup := e.funcs[key]; dup {
		return
	}
	e.funcs[key] = fn
	e.fnKeys[fn] = key
	for i, an := range fn.AnonFuncs {
		e.addFunc(fmt.Sprintf("%s$%d", key, i+1), an)
	}
}

func (e *Engine) indexJumpTable() {
	pp := e.ppkgs["lua"]
	sp := e.pkgs["lua"]
	if pp == nil {
		return
	}
	// opcode names by value
	opNames := map[int64]string{}
	for _, name := range sp.Pkg.Scope().Names() {
		if c, ok := sp.Pkg.Scope().Lookup(name).(*types.Const); ok && strings.HasPrefix(name, "OP_") {
			if v, ok2 := constInt64(c); ok2 {
				opNames[v] = name
			}
		}
	}
	// position -> anonymous function
	byPos := map[token.Pos]*ssa.Function{}
	var walk func(fn *ssa.Function)
	walk = func(fn *ssa.Function) {
		for _, an := range fn.AnonFuncs {
			byPos[an.Pos()] = an
			walk(an)
		}
	}
	for _, m := range sp.Members {
		if fn, ok := m.(*ssa.Function); ok {
			walk(fn)
		}
	}
	if init := sp.Func("init"); init != nil {
		walk(init)
	}
	for _, f := range pp.Syntax {
		ast.Inspect(f, func(n ast.Node) bool {
			as, ok := n.(*ast.AssignStmt)
			if !ok || len(as.Lhs) != 1 || len(as.Rhs) != 1 {
				return true
			}
			id, ok := as.Lhs[0].(*ast.Ident)
			if !ok || id.Name != "jumpTable" {
				return true
			}
			cl, ok := as.Rhs[0].(*ast.CompositeLit)
			if !ok {
				return true
			}
			for k, el := range cl.Elts {
				if fl, ok := el.(*ast.FuncLit); ok {
					if fn := byPos[fl.Type.Func]; fn != nil {
						if name, ok := opNames[int64(k)]; ok {
							key := fmt.Sprintf("jumpTable[%s]", name)
							e.funcs[key] = fn
							e.fnKeys[fn] = key
							for i, an := range fn.AnonFuncs {
								e.addFunc(fmt.Sprintf("%s$%d", key, i+1), an)
							}
						}
					}
				}
			}
			return true
		})
	}
}

func constInt64(c *types.Const) (int64, bool) {
	v := c.Val()
	if v.Kind().String() != "Int" {
		return 0, false
	}
	var x int64
	_, err := fmt.Sscan(v.ExactString(), &x)
	return x, err == nil
}

func (e *Engine) keyOf(fn *ssa.Function) string {
	if k, ok := e.fnKeys[fn]; ok {
		return k
	}
	return fn.String()
}

func (e *Engine) globalType(name string) (types.Type, bool) {
	pkg := "lua"
	n := name
	if i := strings.Index(name, "."); i > 0 {
		pkg, n = name[:i], name[i+1:]
	}
	sp := e.pkgs[pkg]
	if sp == nil {
		return nil, false
	}
	g, ok := sp.Members[n].(*ssa.Global)
	if !ok {
		return nil, false
	}
	return g.Type().(*types.Pointer).Elem(), true
}

func (e *Engine) typeID(t types.Type) Term {
	k := typeStr(t)
	if e.typeIDs == nil {
		e.typeIDs = map[string]int{}
	}
	id, ok := e.typeIDs[k]
	if !ok {
		id = 800000000 + len(e.typeIDs)
		e.typeIDs[k] = id
	}
	return fmt.Sprint(id)
}

func (e *Engine) funcID(fn *ssa.Function) Term {
	id, ok := e.fnIDs[fn]
	if !ok {
		id = 900000000 + len(e.fnIDs)
		e.fnIDs[fn] = id
	}
	return fmt.Sprint(id)
}

// contractID is the identity of a contracted callee in the ghost call log.
func (e *Engine) contractID(ct *Contract) Term {
	for i, k := range e.db.Order {
		if e.db.Contracts[k] == ct {
			return fmt.Sprint(700000000 + i)
		}
	}
	return "0"
}

func (e *Engine) contractFor(fn *ssa.Function) *Contract {
	if k, ok := e.fnKeys[fn]; ok {
		if ct := e.db.Contracts[k]; ct != nil {
			return ct
		}
		return nil
	}
	// external function: "extern pkg.Name" or "extern (*pkg.T).Name"
	if fn.Pkg != nil {
		name := fn.Pkg.Pkg.Name() + "." + fn.Name()
		if recv := fn.Signature.Recv(); recv != nil {
			rt := recv.Type()
			if p, ok := rt.(*types.Pointer); ok {
				name = fmt.Sprintf("(*%s.%s).%s", fn.Pkg.Pkg.Name(), namedNameBare(p.Elem()), fn.Name())
			} else {
				name = fmt.Sprintf("(%s.%s).%s", fn.Pkg.Pkg.Name(), namedNameBare(rt), fn.Name())
			}
		}
		return e.db.Contracts["extern "+name]
	}
	return nil
}

func (e *Engine) ifaceContract(t types.Type, method string) *Contract {
	n := namedName(t)
	if n == "" {
		return nil
	}
	return e.db.Contracts["iface "+n+"."+method]
}

func (e *Engine) sourceLine(file string, line int) string {
	ls, ok := e.srcCache[file]
	if !ok {
		data, err := os.ReadFile(file)
		if err == nil {
			ls = strings.Split(string(data), "\n")
		}
		e.srcCache[file] = ls
	}
	if line-1 < len(ls) && line >= 1 {
		return ls[line-1]
	}
	return ""
}

func (e *Engine) pkgByName(name string) *ssa.Package { return e.pkgs[name] }

func (e *Engine) pkgOrder(vc *VC) []*ssa.Package {
	var out []*ssa.Package
	if vc != nil && vc.fn != nil && vc.fn.Pkg != nil {
		out = append(out, vc.fn.Pkg)
	}
	for _, n := range []string{"lua", "pm", "parse"} {
		if p := e.pkgs[n]; p != nil && (len(out) == 0 || p != out[0]) {
			out = append(out, p)
		}
	}
	return out
}

func (e *Engine) lookupFunc(name string, vc *VC) *ssa.Function {
	for _, p := range e.pkgOrder(vc) {
		if fn := p.Func(name); fn != nil {
			return fn
		}
	}
	return nil
}

func (e *Engine) lookupMethod(t types.Type, name string) *ssa.Function {
	for _, tt := range []types.Type{t, types.NewPointer(t)} {
		ms := e.prog.MethodSets.MethodSet(tt)
		for i := 0; i < ms.Len(); i++ {
			if ms.At(i).Obj().Name() == name {
				return e.prog.MethodValue(ms.At(i))
			}
		}
	}
	return nil
}

// typeByText resolves spec type text ("int", "*LState", "[]LValue", "pm.MatchData") to a Go type.
func (e *Engine) typeByText(text string) types.Type {
	if t, ok := e.typeCache[text]; ok {
		return t
	}
	var res types.Type
	switch text {
	case "int":
		res = tInt
	case "bool":
		res = tBool
	case "string":
		res = tString
	case "float", "float64":
		res = tFloat
	default:
		for _, pn := range []string{"lua", "pm", "parse"} {
			sp := e.pkgs[pn]
			if sp == nil {
				continue
			}
			txt := text
			if strings.Contains(text, ".") {
				// qualified: pm.X only resolves inside that package by stripping the prefix
				q := text[strings.LastIndexAny(text, "*]")+1:]
				if strings.HasPrefix(q, pn+".") {
					txt = strings.Replace(text, pn+".", "", 1)
				} else {
					continue
				}
			}
			tvv, err := types.Eval(e.fset, sp.Pkg, token.NoPos, "*new("+txt+")")
			if err == nil && tvv.Type != nil {
				res = tvv.Type
				break
			}
		}
	}
	e.typeCache[text] = res
	return res
}

// staticType computes the Go type of a (simple) spec expression without state.
func (e *Engine) staticType(x *Expr, params map[string]types.Type) types.Type {
	switch x.Op {
	case "id":
		if t, ok := params[x.Name]; ok {
			return t
		}
		for _, pn := range []string{"lua", "pm", "parse"} {
			if sp := e.pkgs[pn]; sp != nil {
				if v, ok := sp.Pkg.Scope().Lookup(x.Name).(*types.Var); ok {
					return v.Type()
				}
			}
		}
		return nil
	case "old":
		return e.staticType(x.Args[0], params)
	case "field":
		t := e.staticType(x.Args[0], params)
		st, _, ok := structOf(t)
		if !ok {
			return nil
		}
		fi := fieldIndex(st, x.Name)
		if fi < 0 {
			return nil
		}
		return st.Field(fi).Type()
	case "index":
		t := e.staticType(x.Args[0], params)
		if t == nil {
			return nil
		}
		switch u := t.Underlying().(type) {
		case *types.Slice:
			return u.Elem()
		case *types.Array:
			return u.Elem()
		case *types.Map:
			return u.Elem()
		}
	case "call":
		if d, ok := e.db.Defines[x.Name]; ok {
			return e.typeByText(d.Ret)
		}
		switch x.Name {
		case "tab":
			return e.typeByText("*LTable")
		case "fn":
			return e.typeByText("*LFunction")
		case "ud":
			return e.typeByText("*LUserData")
		case "th":
			return e.typeByText("*LState")
		}
	}
	return nil
}

// ---------- per-function verification ----------

type FuncResult struct {
	Key         string
	Obls        []*Obligation
	Errs        []string
	Abstracted  []string
	Opaque      int
	Lines       int
	Unsupported string
}

func (e *Engine) verifyFunction(key string, ct *Contract) (res *FuncResult) {
	res = &FuncResult{Key: key}
	fn := e.funcs[key]
	if fn == nil {
		res.Errs = append(res.Errs, fmt.Sprintf("contract names %s but no such function exists in /repo (contract no longer applies)", key))
		return
	}
	vc := &VC{eng: e, fn: fn, key: key, ct: ct, declared: map[string]bool{}, keys: map[string]*keyInfo{}, occ: map[string]int{}, strlits: map[string]Term{}, curTags: ct.Tags, fpMode: ct.Mode == "fp", cutsHit: map[string]bool{}}
	defer func() {
		if r := recover(); r != nil {
			if u, ok := r.(unsupported); ok {
				res.Unsupported = u.msg
				res.Errs = append(res.Errs, fmt.Sprintf("%s: outside the verified subset: %s", key, u.msg))
				res.Obls = vc.obls
				return
			}
			panic(r)
		}
	}()
	st := &State{guard: "true", heap: map[string]Term{}, epoch: &Epoch{id: 0}, nonnil: map[Term]bool{}}
	st.alloc = vc.fresh("alloc0", "Int")
	st.epoch.allocAt = st.alloc
	vc.emit(fmt.Sprintf("(assert (> %s 0))", st.alloc))
	vc.registerImmutable()
	f := vc.newFrame(fn, 0)
	f.ct = ct
	vc.topFrame = f
	vc.topVars = map[string]tv{}
	for i, p := range fn.Params {
		s := vc.symbolic(st, "p_"+p.Name(), p.Type(), true)
		f.env[p] = s
		vc.topVars[p.Name()] = tv{s, p.Type()}
		if i == 0 && fn.Signature.Recv() != nil {
			vc.topVars["self"] = tv{s, p.Type()}
			if r, ok := s.(sv); ok {
				if _, _, isPS := isPtrToStruct(p.Type()); isPS {
					vc.emit(fmt.Sprintf("(assert (not (= %s 0)))", r.t))
					st.nonnil[r.t] = true
				}
			}
		}
	}
	if rps, ok := replayParams(fn); ok {
		for i, rp := range rps {
			sym := f.env[fn.Params[i]]
			switch rp.kind {
			case "int", "bool":
				if s, isS := sym.(sv); isS {
					vc.replayIn = append(vc.replayIn, s.t)
				}
			case "strlen":
				if s, isS := sym.(sv); isS {
					vc.replayIn = append(vc.replayIn, vc.define("in_len_"+rp.name, "Int", fmt.Sprintf("(slen %s)", s.t)))
				}
			case "ptrint":
				et := rp.typ.Underlying().(*types.Pointer).Elem()
				var a adv
				switch x := sym.(type) {
				case adv:
					a = x
				case sv:
					a = adv{"C:" + typeStr(et), []Term{x.t}, et}
				default:
					continue
				}
				if vs, okv := vc.load(st, a).(sv); okv {
					vc.replayIn = append(vc.replayIn, vc.define("in_cell_"+rp.name, "Int", vs.t))
				}
			}
		}
	}
	for _, fv := range fn.FreeVars {
		var s Sym
		if pt, ok := types.Unalias(fv.Type()).Underlying().(*types.Pointer); ok && e.sortOf(pt.Elem()) != "" || func() bool {
			if pt, ok := types.Unalias(fv.Type()).Underlying().(*types.Pointer); ok {
				_, isSl := pt.Elem().Underlying().(*types.Slice)
				return isSl
			}
			return false
		}() {
			// captured variable of the enclosing function: a local cell no callee can reach
			pt := types.Unalias(fv.Type()).Underlying().(*types.Pointer)
			a := adv{"L:fv." + fv.Name(), nil, pt.Elem()}
			vc.store(st, a, vc.symbolic(st, "fv_"+fv.Name(), pt.Elem(), true))
			s = a
		} else {
			s = vc.symbolic(st, "fv_"+fv.Name(), fv.Type(), true)
		}
		f.env[fv] = s
		if a, ok := s.(adv); ok {
			// captured variable: specs name its current value
			if vc.freeCells == nil {
				vc.freeCells = map[string]adv{}
			}
			vc.freeCells[fv.Name()] = a
		} else {
			vc.topVars[fv.Name()] = tv{s, fv.Type()}
		}
	}
	vc.entry = st.clone()
	vc.useAxioms()
	// requires
	sc := vc.newScope(st, vc.entry)
	sc.vars = vc.topVars
	for _, rq := range ct.Requires {
		t, err := sc.evalBool(rq.E)
		if err != nil {
			vc.errs = append(vc.errs, fmt.Sprintf("%s: %v", rq.Line, err))
			continue
		}
		vc.emit(fmt.Sprintf("(assert %s)", t))
	}
	vc.entry = st.clone()
	// modifies
	if ct.HasMod {
		ms, err := vc.evalModifies(ct, sc, nil)
		if err != nil {
			vc.errs = append(vc.errs, fmt.Sprintf("%s: %v", ct.Line, err))
		} else {
			ms.allocAt = vc.entry.alloc
			vc.modSet = ms
		}
	}
	// vacuity: precondition satisfiable
	vc.obls = append(vc.obls, &Obligation{Name: key + "/VACUITY/requires", Kind: "VACUITY", Fn: key, Prefix: len(vc.lines), Goal: "false", Expect: "notunsat", vc: vc, Tags: ct.Tags, Desc: "precondition and type facts are satisfiable"})
	f.run(st)
	// postconditions at every return
	anyRet := false
	for ri, r := range f.rets {
		if r.st.dead {
			continue
		}
		anyRet = true
		if ct.HasFrom {
			// only exits that pass through the from@ anchor are verified
			vc.curB, vc.curI = r.b, len(r.b.Instrs)
			if !vc.inVerifiedTail() {
				continue
			}
		}
		post := vc.newScope(r.st, vc.entry)
		post.vars = vc.topVars
		post.resultNames = resultNames(fn.Signature.Results())
		for i, v := range r.vals {
			post.results = append(post.results, tv{v, fn.Signature.Results().At(i).Type()})
		}
		for i, en := range ct.Ensures {
			if en.Assumed {
				continue
			}
			t, err := post.evalBool(en.E)
			if err != nil {
				vc.errs = append(vc.errs, fmt.Sprintf("%s: %v", en.Line, err))
				continue
			}
			label := fmt.Sprint(i + 1)
			if en.Label != "" {
				label = en.Label
			}
			if len(f.rets) > 1 {
				label = fmt.Sprintf("%s@ret%d", label, ri+1)
			}
			tags := en.Tags
			if len(tags) == 0 {
				tags = ct.Tags
			}
			vc.curClause = en.E
			vc.withTags(tags, func() {
				vc.oblige(r.st, "POST", label, t, key, "ensures "+en.E.String())
			})
			vc.curClause = nil
		}
		if ct.NoReturn {
			vc.oblige(r.st, "NORETURN", fmt.Sprintf("ret%d", ri+1), "false", key, "function is declared noreturn")
		}
	}
	// reachability of some normal exit (vacuity guard): must NOT be provable unreachable
	{
		var gs []Term
		for _, r := range f.rets {
			if !r.st.dead {
				gs = append(gs, r.st.guard)
			}
		}
		if len(gs) > 0 {
			vc.obls = append(vc.obls, &Obligation{Name: fmt.Sprintf("%s/VACUITY/exit", key), Kind: "VACUITY", Fn: key, Prefix: len(vc.lines), Goal: not(or(gs...)), Expect: "notunsat", vc: vc, Tags: ct.Tags, Desc: "some normal exit is reachable under the hypotheses"})
		}
	}
	provedEnsures := 0
	for _, en := range ct.Ensures {
		if !en.Assumed {
			provedEnsures++
		}
	}
	if !anyRet && !ct.NoReturn && provedEnsures > 0 {
		// (a body whose every path ends behind a cut proves no postcondition; clauses marked `assumes` are not proved anyway)
		vc.errs = append(vc.errs, fmt.Sprintf("%s: no reachable return", key))
	}
	for ai, as := range ct.Asserts {
		if !vc.declared[fmt.Sprintf("assert:%d", ai)] {
			vc.errs = append(vc.errs, fmt.Sprintf("%s: assert anchor %q matched no reachable instruction (contract no longer applies)", key, as.Label))
		}
	}
	for _, c := range ct.Cuts {
		if !vc.cutsHit[c] {
			vc.errs = append(vc.errs, fmt.Sprintf("%s: cut anchor %q matched no instruction (contract no longer applies)", key, c))
		}
	}
	res.Obls = vc.obls
	res.Errs = append(res.Errs, vc.errs...)
	res.Abstracted = vc.abstracted
	res.Opaque = vc.opaqueCalls
	res.Lines = len(vc.lines)
	return
}

// vacuityQuery drops every quantified assertion so that the solver can answer sat quickly;
// contradictions among the quantifier-free hypotheses (requires, invariants, type facts) are still found.
func (o *Obligation) vacuityQuery() string {
	var sb strings.Builder
	pre := preludeAbs
	if o.vc.fpMode {
		pre = preludeFP
	}
	for _, l := range strings.Split(pre+smtPrelude, "\n") {
		if strings.Contains(l, "(forall") {
			continue
		}
		sb.WriteString(l)
		sb.WriteByte('\n')
	}
	for _, l := range o.vc.lines[:o.Prefix] {
		if strings.Contains(l, "(forall") || strings.Contains(l, "(exists") {
			continue
		}
		sb.WriteString(l)
		sb.WriteByte('\n')
	}
	sb.WriteString(fmt.Sprintf("(assert (not %s))\n(check-sat)\n", o.Goal))
	return sb.String()
}

// cexQuery: counterexample mode. Quantified hypotheses are dropped (so the model is only a candidate) and the
// values of every scalar constant of the encoding are requested.
func (o *Obligation) cexQuery() (string, []string) {
	var sb strings.Builder
	pre := preludeAbs
	if o.vc.fpMode {
		pre = preludeFP
	}
	for _, l := range strings.Split(pre+smtPrelude, "\n") {
		if strings.Contains(l, "(forall") {
			continue
		}
		sb.WriteString(l)
		sb.WriteByte('\n')
	}
	var names []string
	for _, l := range o.vc.lines[:o.Prefix] {
		if strings.Contains(l, "(forall") || strings.Contains(l, "(exists") {
			continue
		}
		sb.WriteString(l)
		sb.WriteByte('\n')
		if strings.HasPrefix(l, "(declare-const ") {
			f := strings.Fields(l)
			if len(f) == 3 {
				sort := strings.TrimSuffix(f[2], ")")
				switch sort {
				case "Int", "Bool", "LV", "Str", "F64":
					names = append(names, f[1])
				}
			}
		}
	}
	sb.WriteString(fmt.Sprintf("(assert (not %s))\n(check-sat)\n", o.Goal))
	if len(names) > 600 {
		names = names[:600]
	}
	if len(names) > 0 {
		sb.WriteString("(get-value (" + strings.Join(names, " ") + "))\n")
	}
	return sb.String(), names
}

// axiomSymbols: a prelude axiom is included only when the symbol it is about occurs in the query
// (irrelevant quantified axioms make the solvers slower and less stable).
var axiomSymbols = []string{"feq", "flt", "slen", "sbyte", "substr", "sconcat", "str1", "elemref"}

func (o *Obligation) query() string { return o.queryWith("") }

func (o *Obligation) queryWith(extra string) string {
	var body strings.Builder
	var nonAxiom strings.Builder
	if len(o.vc.axiomLines) > 0 {
		for i, l := range o.vc.lines[:o.Prefix] {
			if _, isAx := o.vc.axiomLines[i]; !isAx {
				nonAxiom.WriteString(l)
				nonAxiom.WriteByte('\n')
			}
		}
		nonAxiom.WriteString(o.Goal)
	}
	na := nonAxiom.String()
	for i, l := range o.vc.lines[:o.Prefix] {
		if syms, isAx := o.vc.axiomLines[i]; isAx {
			keep := false
			for _, sy := range syms {
				if strings.Contains(na, sy) {
					keep = true
				}
			}
			if !keep {
				continue
			}
		}
		body.WriteString(l)
		body.WriteByte('\n')
	}
	if extra != "" {
		body.WriteString(fmt.Sprintf("(assert %s)\n", extra))
	}
	body.WriteString(fmt.Sprintf("(assert (not %s))\n(check-sat)\n", o.Goal))
	bs := body.String()
	var sb strings.Builder
	pre := preludeAbs
	if o.vc.fpMode {
		pre = preludeFP
	}
	for _, l := range strings.Split(pre+smtPrelude, "\n") {
		if strings.HasPrefix(l, "(assert (forall") {
			keep := false
			for _, sym := range axiomSymbols {
				if strings.Contains(l, ":pattern (("+sym+" ") || strings.Contains(l, ":pattern ((slen ("+sym+" ") || strings.Contains(l, ":pattern ((sbyte ("+sym+" ") {
					if strings.Contains(bs, "("+sym+" ") || (sym == "flt" && strings.Contains(bs, "(fgt ")) {
						keep = true
					}
				}
			}
			if !keep {
				continue
			}
		}
		sb.WriteString(l)
		sb.WriteByte('\n')
	}
	sb.WriteString(bs)
	return sb.String()
}

func sortedKeys(m map[string]*Contract) []string {
	var ks []string
	for k := range m {
		ks = append(ks, k)
	}
	sort.Strings(ks)
	return ks
}

// registerImmutable declares the heap keys of `immutable T.f` fields up front, so that every havoc can relate the new
// heap to the old one on already-allocated objects.
func (vc *VC) registerImmutable() {
	if os.Getenv("GVERIF_NOIMM") != "" {
		return
	}
	var names []string
	for n := range vc.eng.db.Immutable {
		names = append(names, n)
	}
	sort.Strings(names)
	for _, n := range names {
		i := strings.LastIndex(n, ".")
		if i < 0 {
			continue
		}
		t := vc.eng.typeByText(n[:i])
		if t == nil {
			continue
		}
		stt, ok := types.Unalias(t).Underlying().(*types.Struct)
		if !ok {
			continue
		}
		for j := 0; j < stt.NumFields(); j++ {
			if stt.Field(j).Name() != n[i+1:] {
				continue
			}
			base := "F:" + structName(t) + "." + n[i+1:]
			vc.touchKeysForType(nil, base, stt.Field(j).Type(), 1)
			var ks []string
			vc.keysOfType(base, stt.Field(j).Type(), &ks)
			if vc.immKeys == nil {
				vc.immKeys = map[string]bool{}
			}
			for _, k := range ks {
				vc.immKeys[k] = true
				if refLike(stt.Field(j).Type()) {
					vc.markRef(k)
				}
			}
		}
	}
}

// structuralObligations scans every function of the loaded packages for the whole-package claims
// `constglobal g` (g is stored only by the package initialiser and its address never escapes) and
// `immutable T.f` (T.f is stored only through an object allocated in the storing function, i.e. while it is being
// constructed, and its address never escapes). The result is decided by the scan itself (no solver).
func (e *Engine) structuralObligations() []*Obligation {
	if len(e.db.Structural) == 0 {
		return nil
	}
	bad := map[string][]string{}
	var initVals map[string][]string
	note := func(name, msg string) { bad[name] = append(bad[name], msg) }
	pkgName := func(p *types.Package) string {
		if p == nil || p.Name() == "lua" {
			return ""
		}
		return p.Name() + "."
	}
	for fn := range ssautil.AllFunctions(e.prog) {
		if fn.Pkg == nil || e.pkgs[fn.Pkg.Pkg.Name()] != fn.Pkg {
			continue
		}
		isInit := fn.Name() == "init" && fn.Synthetic != "" || strings.HasPrefix(fn.Name(), "init#")
		for _, b := range fn.Blocks {
			for _, in := range b.Instrs {
				// globals
				for _, op := range in.Operands(nil) {
					g, ok := (*op).(*ssa.Global)
					if !ok || g.Pkg == nil {
						continue
					}
					name := pkgName(g.Pkg.Pkg) + g.Name()
					if !e.db.ConstGlobals[name] {
						continue
					}
					switch x := in.(type) {
					case *ssa.UnOp:
						if x.Op == token.MUL {
							continue
						}
					case *ssa.Store:
						if x.Addr == ssa.Value(g) && x.Val != ssa.Value(g) {
							if !isInit {
								note("constglobal "+name, fmt.Sprintf("assigned in %s at %s", fn.String(), e.fset.Position(in.Pos())))
							}
							continue
						}
					case *ssa.DebugRef:
						continue
					}
					note("constglobal "+name, fmt.Sprintf("address taken in %s at %s", fn.String(), e.fset.Position(in.Pos())))
				}
				// element stores through a constant slice variable: x := *g; x[i] = v
				if ia, ok := in.(*ssa.IndexAddr); ok {
					if ld, ok := ia.X.(*ssa.UnOp); ok && ld.Op == token.MUL {
						if g, ok := ld.X.(*ssa.Global); ok && g.Pkg != nil && e.db.ConstGlobals[pkgName(g.Pkg.Pkg)+g.Name()] {
							for _, ref := range *ia.Referrers() {
								if stv, ok := ref.(*ssa.Store); ok && stv.Addr == ssa.Value(ia) {
									note("constglobal "+pkgName(g.Pkg.Pkg)+g.Name(), fmt.Sprintf("element assigned in %s at %s", fn.String(), e.fset.Position(stv.Pos())))
								}
							}
						}
					}
				}
				// initial value of a slice-of-functions variable: *g = slice(new [n]T) with constant element stores
				if stv, ok := in.(*ssa.Store); ok && isInit {
					if g, ok := stv.Addr.(*ssa.Global); ok && g.Pkg != nil {
						if sl, ok := stv.Val.(*ssa.Slice); ok {
							if al, ok := sl.X.(*ssa.Alloc); ok {
								vals := map[int64]string{}
								for _, ref := range *al.Referrers() {
									ia, ok := ref.(*ssa.IndexAddr)
									if !ok {
										continue
									}
									c, ok := ia.Index.(*ssa.Const)
									if !ok {
										continue
									}
									// elements that are structs: the function-typed field of the element
									addrs := []ssa.Value{ia}
									for _, r2 := range *ia.Referrers() {
										if fa, ok := r2.(*ssa.FieldAddr); ok {
											if _, isFn := fa.Type().(*types.Pointer).Elem().Underlying().(*types.Signature); isFn {
												addrs = append(addrs, fa)
											}
										}
									}
									for _, ad := range addrs {
										for _, r2 := range *ad.Referrers() {
											if s2, ok := r2.(*ssa.Store); ok && s2.Addr == ad {
												v := s2.Val
												for {
													if ct, ok := v.(*ssa.ChangeType); ok {
														v = ct.X
														continue
													}
													break
												}
												if f, ok := v.(*ssa.Function); ok {
													vals[c.Int64()] = f.Name()
												} else if _, had := vals[c.Int64()]; !had {
													vals[c.Int64()] = "?"
												}
											}
										}
									}
								}
								var lst []string
								for i := int64(0); i < int64(len(vals)); i++ {
									lst = append(lst, vals[i])
								}
								if initVals == nil {
									initVals = map[string][]string{}
								}
								initVals[pkgName(g.Pkg.Pkg)+g.Name()] = lst
							}
						}
					}
				}
				// fields
				fa, ok := in.(*ssa.FieldAddr)
				if !ok {
					continue
				}
				pt, ok := fa.X.Type().Underlying().(*types.Pointer)
				if !ok {
					continue
				}
				stt, ok := pt.Elem().Underlying().(*types.Struct)
				if !ok {
					continue
				}
				name := structName(pt.Elem()) + "." + stt.Field(fa.Field).Name()
				if !e.db.Immutable[name] {
					continue
				}
				for _, ref := range *fa.Referrers() {
					switch x := ref.(type) {
					case *ssa.UnOp:
						if x.Op == token.MUL {
							continue
						}
					case *ssa.DebugRef:
						continue
					case *ssa.Store:
						if x.Addr == ssa.Value(fa) && x.Val != ssa.Value(fa) {
							if _, fresh := fa.X.(*ssa.Alloc); !fresh {
								note("immutable "+name, fmt.Sprintf("stored through a non-fresh object in %s at %s", fn.String(), e.fset.Position(x.Pos())))
							}
							continue
						}
					}
					note("immutable "+name, fmt.Sprintf("address escapes in %s at %s", fn.String(), e.fset.Position(fa.Pos())))
				}
			}
		}
	}
	var out []*Obligation
	for _, d := range e.db.Structural {
		id := d.Kind + " " + d.Name
		o := &Obligation{Name: "STRUCT/" + d.Kind + "/" + d.Name, Kind: "STRUCT", Fn: "package", Tags: d.Tags, Expect: "unsat", Where: d.Line,
			Desc: map[string]string{"constglobal": "package variable " + d.Name + " is assigned only by the package initialiser and its address is never taken",
				"immutable": "field " + d.Name + " is stored only into an object allocated by the storing function (construction) and its address never escapes"}[d.Kind],
			Static: true}
		if d.Kind == "initvalue" {
			o.Desc = "package variable " + d.Name + " is initialised to [" + strings.Join(d.Vals, ", ") + "] in that order, and neither it nor its elements are assigned anywhere else"
			bad[id] = append(bad[id], bad["constglobal "+d.Name]...)
			if got, ok := initVals[d.Name]; !ok {
				bad[id] = append(bad[id], "no slice-literal initialiser found in the package initialiser")
			} else if n := len(d.Vals); n > 0 && d.Vals[n-1] == "*" {
				// prefix claim: the listed functions come first, in order
				if len(got) < n-1 || strings.Join(got[:n-1], " ") != strings.Join(d.Vals[:n-1], " ") {
					bad[id] = append(bad[id], "initialised to ["+strings.Join(got, ", ")+"]")
				}
			} else if strings.Join(got, " ") != strings.Join(d.Vals, " ") {
				bad[id] = append(bad[id], "initialised to ["+strings.Join(got, ", ")+"]")
			}
		}
		if msgs := bad[id]; len(msgs) > 0 {
			sort.Strings(msgs)
			o.Result = SolverResult{Status: "sat", Solver: "ssa-scan", Output: strings.Join(msgs, "\n")}
		} else {
			o.Result = SolverResult{Status: "unsat", Solver: "ssa-scan"}
		}
		out = append(out, o)
	}
	return out
}

// constGlobalInit returns the integer constant a `constglobal` variable is initialised with by the package initialiser
// (the variable is never assigned elsewhere - STRUCT/constglobal - so this IS its value).
func (e *Engine) constGlobalInit(name string) (string, bool) {
	if e.cgInit == nil {
		e.cgInit = map[string]string{}
		for fn := range ssautil.AllFunctions(e.prog) {
			if fn.Pkg == nil || e.pkgs[fn.Pkg.Pkg.Name()] != fn.Pkg {
				continue
			}
			if !(fn.Name() == "init" && fn.Synthetic != "" || strings.HasPrefix(fn.Name(), "init#")) {
				continue
			}
			for _, b := range fn.Blocks {
				for _, in := range b.Instrs {
					st, ok := in.(*ssa.Store)
					if !ok {
						continue
					}
					g, ok := st.Addr.(*ssa.Global)
					if !ok || g.Pkg == nil {
						continue
					}
					c, ok := st.Val.(*ssa.Const)
					if !ok || c.Value == nil || c.Value.Kind() != constant.Int {
						continue
					}
					n := g.Name()
					if g.Pkg.Pkg.Name() != "lua" {
						n = g.Pkg.Pkg.Name() + "." + n
					}
					if v, exact := constant.Int64Val(c.Value); exact {
						e.cgInit[n] = fmt.Sprint(v)
					}
				}
			}
		}
	}
	v, ok := e.cgInit[name]
	return v, ok
}
