package main

// Symbolic execution of go/ssa function bodies into SMT (DESIGN.md §4).

import (
	"fmt"
	"go/constant"
	"go/token"
	"go/types"
	"math/big"
	"sort"
	"strings"

	"golang.org/x/tools/go/ssa"
)

type Term = string

type Sym interface{}

type sv struct{ t Term }                 // scalar (SMT sort by Go type)
type slv struct{ arr, off, ln, cp Term } // slice header
type stv struct{ fields []Sym }          // struct value
type tuv struct{ e []Sym }               // tuple
type adv struct {                        // address of a value of Go type typ
	base string
	idx  []Term
	typ  types.Type
}

type unsupported struct{ msg string }

func unsup(format string, a ...interface{}) { panic(unsupported{fmt.Sprintf(format, a...)}) }

// ---------- heap state ----------

type Epoch struct {
	allocAt  Term // every reference stored in a base heap of this epoch is < allocAt
	logHavoc bool
	id       int
	prev     *Epoch          // partial havoc: keys outside over come from prev
	over     map[string]bool // nil: every key is fresh in this epoch
	parts    []epochPart     // merged epoch: ite over guards
}
type epochPart struct {
	guard Term
	ep    *Epoch
}

type State struct {
	dead   bool
	guard  Term
	heap   map[string]Term
	epoch  *Epoch
	alloc  Term
	nonnil map[Term]bool
}

func (s *State) clone() *State {
	n := &State{dead: s.dead, guard: s.guard, heap: make(map[string]Term, len(s.heap)), epoch: s.epoch, alloc: s.alloc, nonnil: make(map[Term]bool, len(s.nonnil))}
	for k, v := range s.heap {
		n.heap[k] = v
	}
	for k := range s.nonnil {
		n.nonnil[k] = true
	}
	return n
}

type Obligation struct {
	Name     string
	Kind     string
	Fn       string
	Tags     []string
	Prefix   int
	Goal     Term
	Where    string
	Desc     string
	Expect   string // "unsat" normally, "notunsat" for reachability/vacuity guards
	vc       *VC
	Result   SolverResult
	All      []SolverResult
	Inputs   []inputVar
	Cases    []Term
	RawQuery string
	Model    map[string]string
	Static   bool  // decided by a scan of the SSA, not by a solver
	Clause   *Expr // POST: the ensures clause (for replay)
}

type inputVar struct {
	Name string
	Term Term
	Sort string
}

type keyInfo struct {
	sort string // full SMT sort of the heap constant
	name string // sanitized
}

type VC struct {
	eng           *Engine
	fn            *ssa.Function
	key           string
	ct            *Contract
	lines         []string
	declared      map[string]bool
	keys          map[string]*keyInfo
	obls          []*Obligation
	occ           map[string]int
	uniq          int
	entry         *State
	epochCtr      int
	strlits       map[string]Term
	bits          map[Term]*big.Int
	refKeys       map[string]bool
	ghosts        map[string]tv   // let@ ghost constants
	fromBlock     *ssa.BasicBlock // from@: anchor position (nil until reached)
	fromIdx       int
	curB          *ssa.BasicBlock // block / instruction index of the top frame being executed
	curI          int
	skippedObls   int
	curClause     *Expr           // clause being obliged (POST), for replay
	replayIn      []string        // SMT constants holding the entry values of the parameters (replayable functions only)
	immKeys       map[string]bool // heap keys of `immutable` fields: a havoc keeps them on already-allocated objects
	keyInt        map[string]types.Type
	cutsHit       map[string]bool
	guardDefs     map[Term][]Term
	axiomLines    map[int][]string
	freeCells     map[string]adv
	recoverNil    bool
	noInlineLimit int
	axiomsDone    bool
	fpMode        bool
	abstracted    []string
	opaqueCalls   int
	inputs        []inputVar
	errs          []string
	modSet        *modSet // evaluated modifies of the function being verified (nil = unchecked)
	inlArr        map[string]bool
	curTags       []string
	topFrame      *frame
	topVars       map[string]tv
	closureMap    map[Term]*ssa.MakeClosure
}

func (vc *VC) emit(s string) { vc.lines = append(vc.lines, s) }

func sanitize(s string) string {
	var sb strings.Builder
	for _, c := range s {
		if (c >= 'a' && c <= 'z') || (c >= 'A' && c <= 'Z') || (c >= '0' && c <= '9') || c == '_' {
			sb.WriteRune(c)
		} else {
			sb.WriteByte('_')
		}
	}
	return sb.String()
}

func (vc *VC) fresh(prefix, sort string) Term {
	vc.uniq++
	n := fmt.Sprintf("%s_%d", sanitize(prefix), vc.uniq)
	vc.emit(fmt.Sprintf("(declare-const %s %s)", n, sort))
	return n
}

func (vc *VC) define(prefix, sort string, t Term) Term {
	if isAtom(t) {
		return t
	}
	n := vc.fresh(prefix, sort)
	vc.emit(fmt.Sprintf("(assert (= %s %s))", n, t))
	return n
}

func isAtom(t Term) bool {
	return !strings.ContainsAny(t, " (")
}

func (vc *VC) assume(st *State, t Term) {
	if t == "true" {
		return
	}
	if st == nil || st.guard == "true" {
		vc.emit(fmt.Sprintf("(assert %s)", t))
	} else {
		vc.emit(fmt.Sprintf("(assert (=> %s %s))", st.guard, t))
	}
}

// caseSplit expands a merged block guard into the disjuncts of its definition (up to max leaves).
func (vc *VC) caseSplit(g Term, max int) []Term {
	cases := []Term{g}
	for {
		expanded := false
		var next []Term
		for _, c := range cases {
			// a case is "(and G_x cond...)" or a bare guard name; expand the first defined guard name in it
			name := c
			rest := ""
			if strings.HasPrefix(c, "(and ") {
				body := c[5 : len(c)-1]
				if i := strings.Index(body, " "); i > 0 && isAtom(body[:i]) {
					name = body[:i]
					rest = body[i+1:]
				}
			}
			defs, ok := vc.guardDefs[name]
			if !ok || len(cases)-1+len(defs) > max || expanded {
				next = append(next, c)
				continue
			}
			expanded = true
			for _, d := range defs {
				if rest != "" {
					next = append(next, fmt.Sprintf("(and %s %s)", d, rest))
				} else {
					next = append(next, d)
				}
			}
		}
		cases = next
		if !expanded {
			break
		}
	}
	if len(cases) <= 1 {
		return nil
	}
	return cases
}

// splitAnd splits a top-level (and a b c) term into its conjuncts.
func splitAnd(t Term) []Term {
	if !strings.HasPrefix(t, "(and ") {
		return []Term{t}
	}
	body := t[5 : len(t)-1]
	var out []Term
	depth := 0
	start := 0
	for i := 0; i < len(body); i++ {
		switch body[i] {
		case '(':
			depth++
		case ')':
			depth--
		case ' ':
			if depth == 0 {
				if i > start {
					out = append(out, splitAnd(body[start:i])...)
				}
				start = i + 1
			}
		}
	}
	if start < len(body) {
		out = append(out, splitAnd(body[start:])...)
	}
	return out
}

// splitImplAnd: (=> A (and B1 B2 ...)) becomes [(=> A B1), (=> A B2), ...] (one level; string literals in goals never
// contain parentheses or spaces - they are named constants).
func splitImplAnd(t Term) []Term {
	if !strings.HasPrefix(t, "(=> ") {
		return []Term{t}
	}
	body := t[4 : len(t)-1]
	depth := 0
	cut := -1
	for i := 0; i < len(body); i++ {
		switch body[i] {
		case '(':
			depth++
		case ')':
			depth--
		case ' ':
			if depth == 0 && cut < 0 {
				cut = i
			}
		}
		if cut >= 0 {
			break
		}
	}
	if cut < 0 {
		return []Term{t}
	}
	a, b := body[:cut], body[cut+1:]
	// b must be a single s-expression
	d := 0
	for i := 0; i < len(b); i++ {
		switch b[i] {
		case '(':
			d++
		case ')':
			d--
		case ' ':
			if d == 0 {
				return []Term{t}
			}
		}
	}
	parts := splitAnd(b)
	if len(parts) <= 1 {
		return []Term{t}
	}
	var out []Term
	for _, p := range parts {
		out = append(out, fmt.Sprintf("(=> %s %s)", a, p))
	}
	return out
}

func (vc *VC) oblige(st *State, kind, label, goal, where, desc string) {
	if st.dead {
		return
	}
	if vc.ct != nil && vc.ct.HasFrom && !vc.inVerifiedTail() {
		vc.skippedObls++
		return
	}
	if vc.ct != nil && vc.ct.OnlyAsserts && kind != "ASSERT" && kind != "INV-entry" && kind != "INV-preserve" {
		vc.skippedObls++
		return
	}
	if goal == "true" {
		return
	}
	if parts := splitImplAnd(goal); len(parts) > 1 && kind == "POST" {
		for i, p := range parts {
			vc.oblige(st, kind, fmt.Sprintf("%s.%d", label, i+1), p, where, desc)
		}
		return
	}
	if parts := splitAnd(goal); len(parts) > 1 && (kind == "POST" || kind == "PRE" || kind == "INV-entry" || kind == "INV-preserve") {
		for i, p := range parts {
			vc.oblige(st, kind, fmt.Sprintf("%s.%d", label, i+1), p, where, desc)
		}
		return
	}
	base := fmt.Sprintf("%s/%s/%s", vc.key, kind, label)
	vc.occ[base]++
	name := base
	if vc.occ[base] > 1 {
		name = fmt.Sprintf("%s#%d", base, vc.occ[base])
	}
	g := goal
	if st.guard != "true" {
		g = fmt.Sprintf("(=> %s %s)", st.guard, goal)
	}
	o := &Obligation{Name: name, Kind: kind, Fn: vc.key, Prefix: len(vc.lines), Goal: g, Where: where, Desc: desc, Expect: "unsat", vc: vc, Tags: vc.curTags, Clause: vc.curClause}
	o.Cases = vc.caseSplit(st.guard, 8)
	vc.obls = append(vc.obls, o)
}

// inVerifiedTail: with a from@ clause only instructions at or after the anchor (dominated by it) are verified.
func (vc *VC) inVerifiedTail() bool {
	if vc.fromBlock == nil || vc.curB == nil {
		return false
	}
	if vc.curB == vc.fromBlock {
		return vc.curI >= vc.fromIdx
	}
	return vc.fromBlock.Dominates(vc.curB)
}

// ---------- sorts ----------

func (e *Engine) isLValue(t types.Type) bool {
	n, ok := t.(*types.Named)
	return ok && n.Obj().Name() == "LValue" && n.Obj().Pkg() != nil && n.Obj().Pkg().Name() == "lua"
}

func namedName(t types.Type) string {
	if n, ok := t.(*types.Named); ok {
		if n.Obj().Pkg() != nil && n.Obj().Pkg().Name() != "lua" {
			return n.Obj().Pkg().Name() + "." + n.Obj().Name()
		}
		return n.Obj().Name()
	}
	if a, ok := t.(*types.Alias); ok {
		return namedName(types.Unalias(a))
	}
	return ""
}

func typeStr(t types.Type) string {
	return types.TypeString(t, func(p *types.Package) string {
		if p.Name() == "lua" {
			return ""
		}
		return p.Name()
	})
}

// sortOf returns the SMT sort of a scalar Go type, or "" for composite types.
func (e *Engine) sortOf(t types.Type) string {
	t = types.Unalias(t)
	if e.isLValue(t) {
		return "LV"
	}
	switch u := t.Underlying().(type) {
	case *types.Basic:
		switch {
		case u.Info()&types.IsBoolean != 0:
			return "Bool"
		case u.Info()&types.IsInteger != 0:
			return "Int"
		case u.Info()&types.IsFloat != 0:
			return "F64"
		case u.Info()&types.IsString != 0:
			return "Str"
		case u.Kind() == types.UnsafePointer:
			return "Int"
		case u.Kind() == types.UntypedNil:
			return "Int"
		}
		return "Int"
	case *types.Pointer:
		return "Int"
	case *types.Interface, *types.Signature, *types.Map, *types.Chan:
		return "Int"
	case *types.Slice, *types.Struct, *types.Tuple, *types.Array:
		return ""
	}
	return "Int"
}

func isStruct(t types.Type) (*types.Struct, bool) {
	s, ok := types.Unalias(t).Underlying().(*types.Struct)
	return s, ok
}

func isPtrToStruct(t types.Type) (*types.Struct, types.Type, bool) {
	p, ok := types.Unalias(t).Underlying().(*types.Pointer)
	if !ok {
		return nil, nil, false
	}
	s, ok := isStruct(p.Elem())
	return s, p.Elem(), ok
}

func intInfo(t types.Type) (bits int, signed bool, ok bool) {
	b, isb := types.Unalias(t).Underlying().(*types.Basic)
	if !isb || b.Info()&types.IsInteger == 0 {
		return 0, false, false
	}
	switch b.Kind() {
	case types.Int8:
		return 8, true, true
	case types.Int16:
		return 16, true, true
	case types.Int32:
		return 32, true, true
	case types.Int64, types.Int, types.UntypedInt, types.UntypedRune:
		return 64, true, true
	case types.Uint8:
		return 8, false, true
	case types.Uint16:
		return 16, false, true
	case types.Uint32:
		return 32, false, true
	case types.Uint64, types.Uint, types.Uintptr:
		return 64, false, true
	}
	return 64, true, true
}

func pow2(n int) string { return new(big.Int).Lsh(big.NewInt(1), uint(n)).String() }

func intLit(v *big.Int) Term {
	if v.Sign() < 0 {
		return "(- " + new(big.Int).Neg(v).String() + ")"
	}
	return v.String()
}

func ilit(n int64) Term { return intLit(big.NewInt(n)) }

// wrap brings an integer term into the range of Go type t (exact two's complement semantics
// for every type narrower than 64 bits and for unsigned 64-bit; int/int64 are treated as
// mathematical — listed assumption).
func wrapInt(t types.Type, x Term) Term {
	bits, signed, ok := intInfo(t)
	if !ok {
		return x
	}
	if bits == 64 && signed {
		return x
	}
	if !signed {
		return fmt.Sprintf("(mod %s %s)", x, pow2(bits))
	}
	return fmt.Sprintf("(- (mod (+ %s %s) %s) %s)", x, pow2(bits-1), pow2(bits), pow2(bits-1))
}

func rangeFact(t types.Type, x Term) Term {
	bits, signed, ok := intInfo(t)
	if !ok {
		return "true"
	}
	if signed {
		return fmt.Sprintf("(and (<= (- %s) %s) (< %s %s))", pow2(bits-1), x, x, pow2(bits-1))
	}
	return fmt.Sprintf("(and (<= 0 %s) (< %s %s))", x, x, pow2(bits))
}

// ---------- heap keys ----------

func arraySort(idxSorts []string, val string) string {
	s := val
	for i := len(idxSorts) - 1; i >= 0; i-- {
		s = fmt.Sprintf("(Array %s %s)", idxSorts[i], s)
	}
	return s
}

func (vc *VC) keyOf(key string, sort string) *keyInfo {
	ki := vc.keys[key]
	if ki == nil {
		ki = &keyInfo{sort: sort, name: sanitize(key)}
		vc.keys[key] = ki
	} else if ki.sort != sort {
		unsup("heap key %s used at two sorts: %s vs %s", key, ki.sort, sort)
	}
	return ki
}

func (vc *VC) epochBase(ep *Epoch, key string) Term {
	ki := vc.keys[key]
	if len(ep.parts) == 0 {
		if ep.over != nil && !ep.over[key] {
			return vc.epochBase(ep.prev, key)
		}
		if (strings.HasPrefix(key, "Z:") || strings.HasPrefix(key, "L:")) && ep.prev != nil && !ep.logHavoc {
			return vc.epochBase(ep.prev, key) // the ghost call log is not part of the heap: havoc-all keeps it
		}
		n := fmt.Sprintf("H%d_%s", ep.id, ki.name)
		if !vc.declared[n] {
			vc.declared[n] = true
			vc.emit(fmt.Sprintf("(declare-const %s %s)", n, ki.sort))
			if key == "Z:n" {
				vc.emit(fmt.Sprintf("(assert (>= %s 0))", n))
			}
			if i := strings.LastIndex(key, "#"); i >= 0 && (strings.HasSuffix(key, "#arr") || strings.HasSuffix(key, "#off") || strings.HasSuffix(key, "#len") || strings.HasSuffix(key, "#cap")) {
				// slice header well-formedness for every slice stored in this base heap (joint axiom, once)
				pre := key[:i]
				tag := fmt.Sprintf("slicewf:%d:%s", ep.id, pre)
				if !vc.declared[tag] {
					vc.declared[tag] = true
					var hs [4]Term
					for j, suf := range []string{"#arr", "#off", "#len", "#cap"} {
						vc.keyOf(pre+suf, ki.sort)
						if suf == "#arr" {
							vc.markRef(pre + suf)
						}
						hs[j] = vc.epochBase(ep, pre+suf)
					}
					wf := func(a, o, l, c Term) Term {
						return fmt.Sprintf("(and (<= 0 %s) (<= 0 %s) (<= 0 %s) (<= %s %s) (<= (+ %s %s) %s) (=> (= %s 0) (= %s 0)))", a, o, l, l, c, o, c, maxSliceLen, a, c)
					}
					switch ki.sort {
					case "Int":
						vc.emit(fmt.Sprintf("(assert %s)", wf(hs[0], hs[1], hs[2], hs[3])))
					case "(Array Int Int)":
						sel := func(h Term) Term { return fmt.Sprintf("(select %s x)", h) }
						vc.emit(fmt.Sprintf("(assert (forall ((x Int)) (! %s :pattern (%s) :pattern (%s) :pattern (%s))))", wf(sel(hs[0]), sel(hs[1]), sel(hs[2]), sel(hs[3])), sel(hs[0]), sel(hs[2]), sel(hs[3])))
					case "(Array Int (Array Int Int))":
						sel := func(h Term) Term { return fmt.Sprintf("(select (select %s x) y)", h) }
						vc.emit(fmt.Sprintf("(assert (forall ((x Int) (y Int)) (! %s :pattern (%s) :pattern (%s) :pattern (%s))))", wf(sel(hs[0]), sel(hs[1]), sel(hs[2]), sel(hs[3])), sel(hs[0]), sel(hs[2]), sel(hs[3])))
					}
				}
			}
			if strings.HasPrefix(key, "M:") && strings.HasSuffix(key, "#card") && ki.sort == "(Array Int Int)" {
				// finite-map facts of the maps stored in this base heap: the size is not negative, and an empty map has no key
				vc.emit(fmt.Sprintf("(assert (forall ((m Int)) (! (>= (select %s m) 0) :pattern ((select %s m)))))", n, n))
				hk := strings.TrimSuffix(key, "#card") + "#has"
				if hki := vc.keys[hk]; hki != nil && strings.HasPrefix(hki.sort, "(Array Int (Array ") {
					ksort := strings.TrimSuffix(strings.TrimPrefix(hki.sort, "(Array Int (Array "), " Bool))")
					hb := vc.epochBase(ep, hk)
					vc.emit(fmt.Sprintf("(assert (forall ((m Int) (k %s)) (! (=> (= (select %s m) 0) (not (select (select %s m) k))) :pattern ((select (select %s m) k)))))", ksort, n, hb, hb))
				}
			}
			if it, ok := vc.keyInt[key]; ok {
				switch ki.sort {
				case "Int":
					vc.emit(fmt.Sprintf("(assert %s)", rangeFact(it, n)))
				case "(Array Int Int)":
					vc.emit(fmt.Sprintf("(assert (forall ((x Int)) (! %s :pattern ((select %s x)))))", rangeFact(it, fmt.Sprintf("(select %s x)", n)), n))
				case "(Array Int (Array Int Int))":
					vc.emit(fmt.Sprintf("(assert (forall ((x Int) (y Int)) (! %s :pattern ((select (select %s x) y)))))", rangeFact(it, fmt.Sprintf("(select (select %s x) y)", n)), n))
				}
			}
			if vc.refKeys[key] && ep.allocAt != "" {
				switch ki.sort {
				case "Int":
					vc.emit(fmt.Sprintf("(assert (< %s %s))", n, ep.allocAt))
				case "(Array Int Int)":
					vc.emit(fmt.Sprintf("(assert (forall ((x Int)) (! (< (select %s x) %s) :pattern ((select %s x)))))", n, ep.allocAt, n))
				case "(Array Int (Array Int Int))":
					vc.emit(fmt.Sprintf("(assert (forall ((x Int) (y Int)) (! (< (select (select %s x) y) %s) :pattern ((select (select %s x) y)))))", n, ep.allocAt, n))
				}
			}
		}
		return n
	}
	t := vc.epochBase(ep.parts[len(ep.parts)-1].ep, key)
	for i := len(ep.parts) - 2; i >= 0; i-- {
		ti := vc.epochBase(ep.parts[i].ep, key)
		if ti != t {
			t = fmt.Sprintf("(ite %s %s %s)", ep.parts[i].guard, ti, t)
		}
	}
	return t
}

func (vc *VC) newEpoch() *Epoch {
	vc.epochCtr++
	return &Epoch{id: vc.epochCtr}
}

func (vc *VC) markInt(key string, t types.Type) {
	if bits, signed, ok := intInfo(t); ok && !(bits == 64 && signed) && vc.eng.sortOf(t) == "Int" {
		if vc.keyInt == nil {
			vc.keyInt = map[string]types.Type{}
		}
		vc.keyInt[key] = t
	}
}

func (vc *VC) markRef(key string) {
	if vc.refKeys == nil {
		vc.refKeys = map[string]bool{}
	}
	vc.refKeys[key] = true
}

func refLike(t types.Type) bool {
	switch types.Unalias(t).Underlying().(type) {
	case *types.Pointer, *types.Map, *types.Chan:
		return true
	}
	return false
}

// havocKeys forgets the content of every heap key in wk (all keys when wk.all).
func (vc *VC) havocKeys(st *State, wk *writeSet) {
	// immutable fields: remember the current content; after the havoc the new heap agrees with it below the old allocation mark
	type immOld struct {
		k   string
		old Term
	}
	var imm []immOld
	if len(vc.immKeys) > 0 {
		var iks []string
		for k := range vc.immKeys {
			if wk.all || wk.keys[k] {
				iks = append(iks, k)
			}
		}
		sort.Strings(iks)
		for _, k := range iks {
			imm = append(imm, immOld{k, vc.heapGet(st, k, vc.keys[k].sort)})
		}
	}
	oldAlloc := st.alloc
	defer func() {
		for _, io := range imm {
			ki := vc.keys[io.k]
			if !strings.HasPrefix(ki.sort, "(Array Int ") {
				continue
			}
			newA := vc.fresh("imm_"+ki.name, ki.sort)
			vc.emit(fmt.Sprintf("(assert (forall ((x Int)) (! (=> (< x %s) (= (select %s x) (select %s x))) :pattern ((select %s x)))))", oldAlloc, newA, io.old, newA))
			if vc.refKeys[io.k] && ki.sort == "(Array Int Int)" {
				vc.emit(fmt.Sprintf("(assert (forall ((x Int)) (! (< (select %s x) %s) :pattern ((select %s x)))))", newA, st.alloc, newA))
			}
			st.heap[io.k] = newA
		}
	}()
	if wk.all || len(wk.keys) > 0 || wk.allocs {
		na := vc.fresh("alloc", "Int")
		vc.emit(fmt.Sprintf("(assert (>= %s %s))", na, st.alloc))
		st.alloc = na
	}
	if wk.all {
		ne := vc.newEpoch()
		ne.prev = st.epoch
		ne.allocAt = st.alloc
		old := st.heap
		st.epoch = ne
		st.heap = map[string]Term{}
		for k, v := range old {
			if strings.HasPrefix(k, "Z:") || strings.HasPrefix(k, "L:") {
				st.heap[k] = v
			}
		}
		if wk.logs {
			vc.havocLog(st)
		}
		return
	}
	if wk.logs {
		vc.havocLog(st)
	}
	if len(wk.keys) == 0 {
		return
	}
	vc.epochCtr++
	over := make(map[string]bool, len(wk.keys))
	for k := range wk.keys {
		over[k] = true
		delete(st.heap, k)
	}
	st.epoch = &Epoch{id: vc.epochCtr, prev: st.epoch, over: over, allocAt: st.alloc}
}

// havocLog: the ghost call log may have grown (loop bodies containing logged calls); the old prefix is kept.
func (vc *VC) havocLog(st *State) {
	oldN := vc.heapGet(st, "Z:n", "Int")
	newN := vc.fresh("logn", "Int")
	vc.emit(fmt.Sprintf("(assert (>= %s %s))", newN, oldN))
	var ks []string
	for k := range vc.keys {
		if strings.HasPrefix(k, "Z:") && k != "Z:n" {
			ks = append(ks, k)
		}
	}
	sort.Strings(ks)
	for _, k := range ks {
		ki := vc.keys[k]
		oldA := vc.heapGet(st, k, ki.sort)
		newA := vc.fresh("log_"+ki.name, ki.sort)
		vc.emit(fmt.Sprintf("(assert (forall ((i Int)) (! (=> (< i %s) (= (select %s i) (select %s i))) :pattern ((select %s i)))))", oldN, newA, oldA, newA))
		st.heap[k] = newA
	}
	st.heap["Z:n"] = newN
}

func (vc *VC) heapGet(st *State, key, sort string) Term {
	vc.keyOf(key, sort)
	if t, ok := st.heap[key]; ok {
		return t
	}
	t := vc.epochBase(st.epoch, key)
	if !isAtom(t) {
		t = vc.define("Hm_"+sanitize(key), sort, t)
	}
	st.heap[key] = t
	return t
}

func selectN(a Term, idx []Term) Term {
	for _, i := range idx {
		a = fmt.Sprintf("(select %s %s)", a, i)
	}
	return a
}

func storeN(a Term, idx []Term, v Term) Term {
	if len(idx) == 0 {
		return v
	}
	inner := storeN(fmt.Sprintf("(select %s %s)", a, idx[0]), idx[1:], v)
	return fmt.Sprintf("(store %s %s %s)", a, idx[0], inner)
}

func idxSorts(n int) []string {
	s := make([]string, n)
	for i := range s {
		s[i] = "Int"
	}
	return s
}

// scalar load/store on a key with Int indices
func (vc *VC) loadScalar(st *State, key string, idx []Term, sort string) Term {
	h := vc.heapGet(st, key, arraySort(idxSorts(len(idx)), sort))
	return selectN(h, idx)
}

func (vc *VC) storeScalar(st *State, key string, idx []Term, sort string, v Term) {
	full := arraySort(idxSorts(len(idx)), sort)
	h := vc.heapGet(st, key, full)
	st.heap[key] = vc.define("H_"+sanitize(key), full, storeN(h, idx, v))
}

func (vc *VC) load(st *State, a adv) Sym {
	e := vc.eng
	t := types.Unalias(a.typ)
	if s := e.sortOf(t); s != "" {
		if refLike(t) {
			vc.markRef(a.base)
		}
		vc.markInt(a.base, t)
		return sv{vc.loadScalar(st, a.base, a.idx, s)}
	}
	switch u := t.Underlying().(type) {
	case *types.Struct:
		f := make([]Sym, u.NumFields())
		for i := 0; i < u.NumFields(); i++ {
			f[i] = vc.load(st, adv{a.base + "." + u.Field(i).Name(), a.idx, u.Field(i).Type()})
		}
		return stv{f}
	case *types.Slice:
		vc.markRef(a.base + "#arr")
		return slv{
			vc.loadScalar(st, a.base+"#arr", a.idx, "Int"),
			vc.loadScalar(st, a.base+"#off", a.idx, "Int"),
			vc.loadScalar(st, a.base+"#len", a.idx, "Int"),
			vc.loadScalar(st, a.base+"#cap", a.idx, "Int"),
		}
	}
	unsup("load of type %s", typeStr(t))
	return nil
}

func (vc *VC) store(st *State, a adv, v Sym) {
	e := vc.eng
	t := types.Unalias(a.typ)
	if s := e.sortOf(t); s != "" {
		if refLike(t) {
			vc.markRef(a.base)
		}
		vc.markInt(a.base, t)
		vc.storeScalar(st, a.base, a.idx, s, vc.scalar(v))
		return
	}
	switch u := t.Underlying().(type) {
	case *types.Struct:
		sv_, ok := v.(stv)
		if !ok {
			unsup("store of non-struct sym into struct")
		}
		for i := 0; i < u.NumFields(); i++ {
			vc.store(st, adv{a.base + "." + u.Field(i).Name(), a.idx, u.Field(i).Type()}, sv_.fields[i])
		}
		return
	case *types.Slice:
		s := v.(slv)
		vc.markRef(a.base + "#arr")
		vc.storeScalar(st, a.base+"#arr", a.idx, "Int", s.arr)
		vc.storeScalar(st, a.base+"#off", a.idx, "Int", s.off)
		vc.storeScalar(st, a.base+"#len", a.idx, "Int", s.ln)
		vc.storeScalar(st, a.base+"#cap", a.idx, "Int", s.cp)
		return
	}
	unsup("store of type %s", typeStr(t))
}

// keysOfType lists the heap keys (suffixes) that a value of type t occupies under base.
func (vc *VC) keysOfType(base string, t types.Type, out *[]string) {
	t = types.Unalias(t)
	if vc.eng.sortOf(t) != "" {
		*out = append(*out, base)
		return
	}
	switch u := t.Underlying().(type) {
	case *types.Struct:
		for i := 0; i < u.NumFields(); i++ {
			vc.keysOfType(base+"."+u.Field(i).Name(), u.Field(i).Type(), out)
		}
	case *types.Slice:
		*out = append(*out, base+"#arr", base+"#off", base+"#len", base+"#cap")
	case *types.Array:
		// inline arrays: elements live under E:/F: keys of the element type
	}
}

func (vc *VC) scalar(v Sym) Term {
	switch x := v.(type) {
	case sv:
		return x.t
	case adv:
		unsup("address used as scalar (%s)", x.base)
	}
	unsup("composite value used as scalar: %T", v)
	return ""
}

func (vc *VC) zero(t types.Type) Sym {
	e := vc.eng
	t = types.Unalias(t)
	switch e.sortOf(t) {
	case "LV":
		return sv{"GoNil"}
	case "Bool":
		return sv{"false"}
	case "Int":
		return sv{"0"}
	case "F64":
		return sv{vc.f64Lit(0)}
	case "Str":
		return sv{vc.strLit("")}
	}
	switch u := t.Underlying().(type) {
	case *types.Struct:
		f := make([]Sym, u.NumFields())
		for i := range f {
			f[i] = vc.zero(u.Field(i).Type())
		}
		return stv{f}
	case *types.Slice:
		return slv{"0", "0", "0", "0"}
	}
	unsup("zero value of %s", typeStr(t))
	return nil
}

func (vc *VC) strLit(s string) Term {
	if s == "" {
		return "sempty"
	}
	if t, ok := vc.strlits[s]; ok {
		return t
	}
	n := fmt.Sprintf("strlit_%d", len(vc.strlits))
	vc.emit(fmt.Sprintf("(declare-const %s Str)", n))
	vc.emit(fmt.Sprintf("(assert (= (slen %s) %d))", n, len(s)))
	if len(s) <= 16 {
		for i := 0; i < len(s); i++ {
			vc.emit(fmt.Sprintf("(assert (= (sbyte %s %d) %d))", n, i, s[i]))
		}
	}
	// distinctness from earlier literals of the same length follows from bytes only for short ones;
	// assert it directly (string literals with different contents are different values).
	for o, ot := range vc.strlits {
		if o != s && len(o) == len(s) {
			vc.emit(fmt.Sprintf("(assert (not (= %s %s)))", n, ot))
		}
	}
	vc.strlits[s] = n
	return n
}

// symbolic creates an unconstrained value of type t (with type-range facts asserted under st.guard).
func (vc *VC) symbolic(st *State, prefix string, t types.Type, asInput bool) Sym {
	e := vc.eng
	t = types.Unalias(t)
	if s := e.sortOf(t); s != "" {
		// pointer to non-struct: address of a cell
		if p, ok := t.Underlying().(*types.Pointer); ok {
			if _, isS := isStruct(p.Elem()); !isS {
				if _, isA := p.Elem().Underlying().(*types.Array); !isA {
					c := vc.fresh(prefix, "Int")
					vc.assume(st, fmt.Sprintf("(and (< 0 %s) (< %s %s))", c, c, st.alloc))
					return adv{"C:" + typeStr(p.Elem()), []Term{c}, p.Elem()}
				}
			}
		}
		c := vc.fresh(prefix, s)
		if asInput {
			vc.inputs = append(vc.inputs, inputVar{prefix, c, s})
		}
		if s == "Int" {
			if _, _, ok := intInfo(t); ok {
				vc.assume(st, rangeFact(t, c))
			} else if _, ok := t.Underlying().(*types.Pointer); ok {
				vc.assume(st, fmt.Sprintf("(< %s %s)", c, st.alloc))
			} else if _, ok := t.Underlying().(*types.Map); ok {
				vc.assume(st, fmt.Sprintf("(and (<= 0 %s) (< %s %s))", c, c, st.alloc))
			}
		}
		return sv{c}
	}
	switch u := t.Underlying().(type) {
	case *types.Struct:
		f := make([]Sym, u.NumFields())
		for i := range f {
			f[i] = vc.symbolic(st, prefix+"_"+u.Field(i).Name(), u.Field(i).Type(), asInput)
		}
		return stv{f}
	case *types.Slice:
		s := slv{vc.fresh(prefix+"_arr", "Int"), vc.fresh(prefix+"_off", "Int"), vc.fresh(prefix+"_len", "Int"), vc.fresh(prefix+"_cap", "Int")}
		if asInput {
			vc.inputs = append(vc.inputs, inputVar{prefix + ".arr", s.arr, "Int"}, inputVar{prefix + ".off", s.off, "Int"}, inputVar{prefix + ".len", s.ln, "Int"}, inputVar{prefix + ".cap", s.cp, "Int"})
		}
		vc.assume(st, vc.sliceFacts(st, s))
		vc.assume(st, fmt.Sprintf("(< %s %s)", s.arr, st.alloc))
		return s
	case *types.Tuple:
		tv := tuv{}
		for i := 0; i < u.Len(); i++ {
			tv.e = append(tv.e, vc.symbolic(st, fmt.Sprintf("%s_%d", prefix, i), u.At(i).Type(), false))
		}
		return tv
	}
	unsup("symbolic value of type %s", typeStr(t))
	return nil
}

const maxSliceLen = "281474976710656" // 2^48 (listed assumption)

func (vc *VC) sliceFacts(st *State, s slv) Term {
	return fmt.Sprintf("(and (<= 0 %s) (<= 0 %s) (<= %s %s) (<= (+ %s %s) %s) (<= 0 %s) (=> (= %s 0) (= %s 0)))",
		s.off, s.ln, s.ln, s.cp, s.off, s.cp, maxSliceLen, s.arr, s.arr, s.cp)
}

func (vc *VC) allocRef(st *State, prefix string) Term {
	r := vc.define(prefix, "Int", st.alloc)
	st.alloc = vc.define("alloc", "Int", fmt.Sprintf("(+ %s 1)", st.alloc))
	return r
}

// ---------- frames ----------

type loopInfo struct {
	blk     *inlBlock
	header  *ssa.BasicBlock
	body    map[*ssa.BasicBlock]bool
	ordinal int
	spec    *LoopSpec
	preHav  map[ssa.Value]Sym // header phi values at entry (merged over entry edges)
	v0      Term              // decreases value at header
	hasDec  bool
}

type retInfo struct {
	st   *State
	vals []Sym
	b    *ssa.BasicBlock
}

type frame struct {
	vc       *VC
	fn       *ssa.Function
	env      map[ssa.Value]Sym
	out      map[*ssa.BasicBlock]*State
	edge     map[[2]int]Term
	loops    map[*ssa.BasicBlock]*loopInfo
	depth    int
	prefix   string // obligation label prefix for inlined frames
	specMode bool
	rets     []retInfo
	ct       *Contract
	callers  []*ssa.Function
	entrySt  *State
	override map[ssa.Value]Sym
	locals   map[*ssa.Alloc]adv
	blocks   []*inlBlock
	defers   []deferred
}

type deferred struct {
	fn    *ssa.Function
	binds []Sym
}

func (vc *VC) newFrame(fn *ssa.Function, depth int) *frame {
	return &frame{vc: vc, fn: fn, env: map[ssa.Value]Sym{}, out: map[*ssa.BasicBlock]*State{}, edge: map[[2]int]Term{}, depth: depth, locals: map[*ssa.Alloc]adv{}}
}

func (f *frame) where(pos token.Pos) string {
	if !pos.IsValid() {
		return f.fn.Name()
	}
	p := f.vc.eng.fset.Position(pos)
	return fmt.Sprintf("%s:%d", shortFile(p.Filename), p.Line)
}

func shortFile(s string) string {
	if i := strings.LastIndex(s, "/"); i >= 0 {
		// keep pm/ and parse/ prefixes
		dir := s[:i]
		if strings.HasSuffix(dir, "/pm") {
			return "pm/" + s[i+1:]
		}
		if strings.HasSuffix(dir, "/parse") {
			return "parse/" + s[i+1:]
		}
		return s[i+1:]
	}
	return s
}

// srcLabel is the trimmed source line of pos (never a line number).
func (f *frame) srcLabel(pos token.Pos) string {
	if !pos.IsValid() {
		return "?"
	}
	p := f.vc.eng.fset.Position(pos)
	line := f.vc.eng.sourceLine(p.Filename, p.Line)
	line = strings.Join(strings.Fields(line), " ")
	if i := strings.Index(line, " //"); i >= 0 {
		line = line[:i]
	}
	if len(line) > 70 {
		line = line[:70]
	}
	return f.prefix + line
}

func analyzeLoops(fn *ssa.Function) map[*ssa.BasicBlock]*loopInfo {
	loops := map[*ssa.BasicBlock]*loopInfo{}
	for _, b := range fn.Blocks {
		for _, s := range b.Succs {
			if s.Dominates(b) {
				li := loops[s]
				if li == nil {
					li = &loopInfo{header: s, body: map[*ssa.BasicBlock]bool{s: true}}
					loops[s] = li
				}
				// reverse DFS from b up to s
				var stack []*ssa.BasicBlock
				if !li.body[b] {
					li.body[b] = true
					stack = append(stack, b)
				}
				for len(stack) > 0 {
					x := stack[len(stack)-1]
					stack = stack[:len(stack)-1]
					for _, p := range x.Preds {
						if !li.body[p] {
							li.body[p] = true
							stack = append(stack, p)
						}
					}
				}
			}
		}
	}
	// ordinals by source order
	type lp struct {
		li  *loopInfo
		pos token.Pos
	}
	var ls []lp
	for _, li := range loops {
		min := token.Pos(1 << 40)
		for b := range li.body {
			for _, in := range b.Instrs {
				if _, isDbg := in.(*ssa.DebugRef); isDbg {
					continue
				}
				if p := in.Pos(); p.IsValid() && p < min {
					min = p
				}
			}
		}
		ls = append(ls, lp{li, min})
	}
	sort.Slice(ls, func(i, j int) bool {
		if ls[i].pos != ls[j].pos {
			return ls[i].pos < ls[j].pos
		}
		if len(ls[i].li.body) != len(ls[j].li.body) {
			return len(ls[i].li.body) > len(ls[j].li.body)
		}
		return ls[i].li.header.Index < ls[j].li.header.Index
	})
	for i, l := range ls {
		l.li.ordinal = i + 1
	}
	return loops
}

func topoOrder(fn *ssa.Function) []*ssa.BasicBlock {
	seen := map[*ssa.BasicBlock]bool{}
	var post []*ssa.BasicBlock
	var dfs func(b *ssa.BasicBlock)
	dfs = func(b *ssa.BasicBlock) {
		seen[b] = true
		for _, s := range b.Succs {
			if s.Dominates(b) { // back edge
				continue
			}
			if !seen[s] {
				dfs(s)
			}
		}
		post = append(post, b)
	}
	if len(fn.Blocks) > 0 {
		dfs(fn.Blocks[0])
	}
	for i, j := 0, len(post)-1; i < j; i, j = i+1, j-1 {
		post[i], post[j] = post[j], post[i]
	}
	return post
}

func predIndex(b, p *ssa.BasicBlock, nth int) int {
	c := 0
	for i, x := range b.Preds {
		if x == p {
			if c == nth {
				return i
			}
			c++
		}
	}
	return -1
}

// mergeSyms builds ite(guards[0], vals[0], ite(guards[1], vals[1], ... vals[n-1]))
func (vc *VC) mergeSyms(prefix string, t types.Type, guards []Term, vals []Sym) Sym {
	if len(vals) == 1 {
		return vals[0]
	}
	allSame := true
	for _, v := range vals[1:] {
		if !symEqual(v, vals[0]) {
			allSame = false
			break
		}
	}
	if allSame {
		return vals[0]
	}
	switch v0 := vals[0].(type) {
	case sv:
		terms := make([]Term, len(vals))
		for i, v := range vals {
			terms[i] = vc.scalar(v)
		}
		sort := vc.eng.sortOf(t)
		if sort == "" {
			sort = "Int"
		}
		return sv{vc.define(prefix, sort, iteChain(guards, terms))}
	case slv:
		parts := [4][]Term{}
		for _, v := range vals {
			s, ok := v.(slv)
			if !ok {
				unsup("merge of slice with non-slice")
			}
			parts[0] = append(parts[0], s.arr)
			parts[1] = append(parts[1], s.off)
			parts[2] = append(parts[2], s.ln)
			parts[3] = append(parts[3], s.cp)
		}
		return slv{vc.define(prefix+"_arr", "Int", iteChain(guards, parts[0])), vc.define(prefix+"_off", "Int", iteChain(guards, parts[1])),
			vc.define(prefix+"_len", "Int", iteChain(guards, parts[2])), vc.define(prefix+"_cap", "Int", iteChain(guards, parts[3]))}
	case stv:
		st, _ := isStruct(t)
		res := stv{make([]Sym, len(v0.fields))}
		for i := range v0.fields {
			sub := make([]Sym, len(vals))
			for j, v := range vals {
				sub[j] = v.(stv).fields[i]
			}
			var ft types.Type = types.Typ[types.Int]
			if st != nil {
				ft = st.Field(i).Type()
			}
			res.fields[i] = vc.mergeSyms(prefix, ft, guards, sub)
		}
		return res
	case tuv:
		tt, _ := t.(*types.Tuple)
		res := tuv{make([]Sym, len(v0.e))}
		for i := range v0.e {
			sub := make([]Sym, len(vals))
			for j, v := range vals {
				sub[j] = v.(tuv).e[i]
			}
			var ft types.Type = types.Typ[types.Int]
			if tt != nil {
				ft = tt.At(i).Type()
			}
			res.e[i] = vc.mergeSyms(prefix, ft, guards, sub)
		}
		return res
	case adv:
		idx := make([]Term, len(v0.idx))
		for k := range v0.idx {
			terms := make([]Term, len(vals))
			for j, v := range vals {
				a, ok := v.(adv)
				if !ok || a.base != v0.base || len(a.idx) != len(v0.idx) {
					unsup("merge of addresses into different heap keys")
				}
				terms[j] = a.idx[k]
			}
			idx[k] = vc.define(prefix+"_ai", "Int", iteChain(guards, terms))
		}
		return adv{v0.base, idx, v0.typ}
	}
	unsup("merge of %T", vals[0])
	return nil
}

func symEqual(a, b Sym) bool {
	switch x := a.(type) {
	case sv:
		y, ok := b.(sv)
		return ok && x.t == y.t
	case slv:
		y, ok := b.(slv)
		return ok && x == y
	case adv:
		y, ok := b.(adv)
		if !ok || x.base != y.base || len(x.idx) != len(y.idx) {
			return false
		}
		for i := range x.idx {
			if x.idx[i] != y.idx[i] {
				return false
			}
		}
		return true
	case stv:
		y, ok := b.(stv)
		if !ok || len(x.fields) != len(y.fields) {
			return false
		}
		for i := range x.fields {
			if !symEqual(x.fields[i], y.fields[i]) {
				return false
			}
		}
		return true
	case tuv:
		y, ok := b.(tuv)
		if !ok || len(x.e) != len(y.e) {
			return false
		}
		for i := range x.e {
			if !symEqual(x.e[i], y.e[i]) {
				return false
			}
		}
		return true
	}
	return false
}

func iteChain(guards []Term, terms []Term) Term {
	t := terms[len(terms)-1]
	for i := len(terms) - 2; i >= 0; i-- {
		if terms[i] != t {
			t = fmt.Sprintf("(ite %s %s %s)", guards[i], terms[i], t)
		}
	}
	return t
}

func and(ts ...Term) Term {
	var out []Term
	for _, t := range ts {
		if t == "true" || t == "" {
			continue
		}
		if t == "false" {
			return "false"
		}
		out = append(out, t)
	}
	if len(out) == 0 {
		return "true"
	}
	if len(out) == 1 {
		return out[0]
	}
	return "(and " + strings.Join(out, " ") + ")"
}

func or(ts ...Term) Term {
	var out []Term
	for _, t := range ts {
		if t == "false" || t == "" {
			continue
		}
		if t == "true" {
			return "true"
		}
		out = append(out, t)
	}
	if len(out) == 0 {
		return "false"
	}
	if len(out) == 1 {
		return out[0]
	}
	return "(or " + strings.Join(out, " ") + ")"
}

func not(t Term) Term {
	if t == "true" {
		return "false"
	}
	if t == "false" {
		return "true"
	}
	return "(not " + t + ")"
}

// mergeStates merges alive predecessor states with their edge guards.
func (vc *VC) mergeStates(label string, guards []Term, sts []*State) *State {
	if len(sts) == 1 {
		n := sts[0].clone()
		n.guard = guards[0]
		return n
	}
	n := &State{heap: map[string]Term{}, nonnil: map[Term]bool{}}
	n.guard = vc.define("G_"+label, "Bool", or(guards...))
	if vc.guardDefs == nil {
		vc.guardDefs = map[Term][]Term{}
	}
	vc.guardDefs[n.guard] = append([]Term{}, guards...)
	// epoch
	same := true
	for _, s := range sts[1:] {
		if s.epoch != sts[0].epoch {
			same = false
		}
	}
	if same {
		n.epoch = sts[0].epoch
	} else {
		ep := &Epoch{id: -1}
		for i, s := range sts {
			ep.parts = append(ep.parts, epochPart{guards[i], s.epoch})
		}
		n.epoch = ep
	}
	keys := map[string]bool{}
	for _, s := range sts {
		for k := range s.heap {
			keys[k] = true
		}
	}
	var ks []string
	for k := range keys {
		ks = append(ks, k)
	}
	sort.Strings(ks)
	for _, k := range ks {
		terms := make([]Term, len(sts))
		for i, s := range sts {
			if t, ok := s.heap[k]; ok {
				terms[i] = t
			} else {
				terms[i] = vc.epochBase(s.epoch, k)
			}
		}
		t := iteChain(guards, terms)
		if !isAtom(t) {
			t = vc.define("H_"+sanitize(k), vc.keys[k].sort, t)
		}
		n.heap[k] = t
	}
	allocs := make([]Term, len(sts))
	for i, s := range sts {
		allocs[i] = s.alloc
	}
	n.alloc = vc.define("alloc", "Int", iteChain(guards, allocs))
	for t := range sts[0].nonnil {
		all := true
		for _, s := range sts[1:] {
			if !s.nonnil[t] {
				all = false
				break
			}
		}
		if all {
			n.nonnil[t] = true
		}
	}
	return n
}

// run executes the body of f.fn from entry state st with parameters bound in f.env.
func (f *frame) run(st *State) {
	vc := f.vc
	fn := f.fn
	if len(fn.Blocks) == 0 {
		unsup("function %s has no body", fn.String())
	}
	f.entrySt = st
	f.loops = analyzeLoops(fn)
	if f.depth == 0 && !f.specMode {
		f.blocks = vc.eng.inlineBlocks(fn)
	}
	if f.ct != nil {
		for _, li := range f.loops {
			li.spec = f.ct.Loops[fmt.Sprint(li.ordinal)]
			if li.spec == nil {
				li.spec, li.blk = f.loopBlockSpec(li)
			}
		}
		for k := range f.ct.Loops {
			found := false
			for _, li := range f.loops {
				if fmt.Sprint(li.ordinal) == k {
					found = true
				}
			}
			if !found {
				vc.errs = append(vc.errs, fmt.Sprintf("contract of %s names loop %s but the function has %d loops", vc.key, k, len(f.loops)))
			}
		}
	}
	order := topoOrder(fn)
	for _, b := range order {
		var cur *State
		if b == fn.Blocks[0] {
			cur = st.clone()
		} else {
			var guards []Term
			var sts []*State
			var predIdx []int
			seen := map[*ssa.BasicBlock]int{}
			for _, p := range b.Preds {
				nth := seen[p]
				seen[p]++
				if b.Dominates(p) {
					continue // back edge
				}
				ps := f.out[p]
				if ps == nil || ps.dead {
					continue
				}
				pi := predIndex(b, p, nth)
				g := f.edge[[2]int{p.Index*10 + nth, b.Index}]
				if g == "" {
					// find edge guard by successor position
					g = f.edgeGuardFor(p, b, nth)
				}
				if g == "false" {
					continue
				}
				guards = append(guards, g)
				sts = append(sts, ps)
				predIdx = append(predIdx, pi)
			}
			if len(sts) == 0 {
				f.out[b] = &State{dead: true}
				continue
			}
			cur = vc.mergeStates(fmt.Sprintf("b%d", b.Index), guards, sts)
			// phis
			for _, in := range b.Instrs {
				phi, ok := in.(*ssa.Phi)
				if !ok {
					continue
				}
				vals := make([]Sym, len(predIdx))
				for i, pi := range predIdx {
					vals[i] = f.val(phi.Edges[pi])
				}
				f.env[phi] = vc.mergeSyms("phi_"+phi.Name(), phi.Type(), guards, vals)
			}
		}
		if len(f.blocks) > 0 {
			// go-inline sections end before the havoc of a following loop header
			for ii, x := range b.Instrs {
				if _, isDbg := x.(*ssa.DebugRef); isDbg {
					continue
				}
				if _, isPhi := x.(*ssa.Phi); isPhi {
					continue
				}
				if x.Pos().IsValid() {
					f.blockExits(b, ii, x.Pos(), cur)
					break
				}
			}
		}
		if f.depth == 0 && !f.specMode {
			vc.curB, vc.curI = b, -1
		}
		if li := f.loops[b]; li != nil {
			f.loopHeader(li, cur)
		}
		f.execBlock(b, cur)
		if li := f.loops[b]; li != nil && li.spec != nil && len(li.spec.Exits) > 0 && !f.specMode {
			f.loopExitChecks(li, b)
		}
	}
}

// loopExitChecks: `loop K exit E` is an obligation on the edge that leaves the loop from its header (the loop condition
// is false there and the invariants hold); names denote the header values.
func (f *frame) loopExitChecks(li *loopInfo, b *ssa.BasicBlock) {
	vc := f.vc
	ps := f.out[b]
	if ps == nil || ps.dead {
		return
	}
	for si, succ := range b.Succs {
		if li.body[succ] {
			continue
		}
		g := f.edgeGuardFor(b, succ, 0)
		if len(b.Succs) == 2 && b.Succs[0] == b.Succs[1] && si == 1 {
			continue
		}
		st := ps.clone()
		st.guard = g
		for i, ex := range li.spec.Exits {
			t, err := f.evalLoopClause(ex.E, li, st, nil)
			if err != nil {
				vc.errs = append(vc.errs, fmt.Sprintf("%s: %v", ex.Line, err))
				continue
			}
			vc.withTags(f.clauseTags(ex), func() {
				vc.oblige(st, "LOOP-EXIT", fmt.Sprintf("%sloop%d/%d", f.prefix, li.ordinal, i+1), t, f.where(firstPos(succ)), "loop exit "+ex.E.String())
			})
		}
	}
}

func (f *frame) edgeGuardFor(p, b *ssa.BasicBlock, nth int) Term {
	ps := f.out[p]
	if ps == nil || ps.dead {
		return "false"
	}
	last := p.Instrs[len(p.Instrs)-1]
	if iff, ok := last.(*ssa.If); ok {
		c := f.vc.scalar(f.val(iff.Cond))
		if p.Succs[0] == b && p.Succs[1] == b {
			return ps.guard
		}
		if p.Succs[0] == b {
			return and(ps.guard, c)
		}
		return and(ps.guard, not(c))
	}
	return ps.guard
}

// ---------- loops ----------

func (f *frame) loopHeader(li *loopInfo, cur *State) {
	vc := f.vc
	b := li.header
	label := fmt.Sprintf("loop%d", li.ordinal)
	// 1. INV-entry on the merged entry state (phis currently hold entry values)
	if li.spec != nil && !f.specMode {
		for i, inv := range li.spec.Invariants {
			t, err := f.evalLoopClause(inv.E, li, cur, nil)
			if err != nil {
				vc.errs = append(vc.errs, fmt.Sprintf("%s: %v", inv.Line, err))
				continue
			}
			vc.withTags(f.clauseTags(inv), func() {
				vc.oblige(cur, "INV-entry", fmt.Sprintf("%s%s/%d", f.prefix, label, i+1), t, f.where(firstPos(b)), inv.E.String())
			})
		}
	}
	// 2. havoc: header phis and heap keys written in the loop
	entryVals := map[*ssa.Phi]Sym{}
	var phis []*ssa.Phi
	for _, in := range b.Instrs {
		if phi, ok := in.(*ssa.Phi); ok {
			phis = append(phis, phi)
			entryVals[phi] = f.env[phi]
		}
	}
	wk := &writeSet{keys: map[string]bool{}}
	for blk := range li.body {
		vc.blockWrites(blk, wk, 0, map[*ssa.Function]bool{f.fn: true})
	}
	g := vc.fresh("G_"+label, "Bool")
	vc.emit(fmt.Sprintf("(assert (=> %s %s))", g, cur.guard))
	cur.guard = g
	vc.havocKeys(cur, wk)
	cur.nonnil = map[Term]bool{}
	for _, phi := range phis {
		f.env[phi] = vc.symbolic(cur, "lp_"+phi.Comment+"_"+phi.Name(), phi.Type(), false)
	}
	// 3. auto interval facts for induction variables
	for _, phi := range phis {
		f.autoInterval(li, phi, entryVals[phi], cur)
	}
	// 4. assume invariants
	if li.spec != nil {
		for _, inv := range li.spec.Invariants {
			t, err := f.evalLoopClause(inv.E, li, cur, nil)
			if err != nil {
				continue
			}
			vc.assume(cur, t)
		}
		if li.spec.Decreases != nil && !f.specMode {
			t, err := f.evalLoopTerm(li.spec.Decreases.E, li, cur, nil)
			if err == nil {
				li.v0 = vc.define("variant", "Int", t)
				li.hasDec = true
			} else {
				vc.errs = append(vc.errs, fmt.Sprintf("%s: %v", li.spec.Decreases.Line, err))
			}
		}
	}
}

func firstPos(b *ssa.BasicBlock) token.Pos {
	for _, in := range b.Instrs {
		if _, ok := in.(*ssa.DebugRef); ok {
			continue
		}
		if in.Pos().IsValid() {
			return in.Pos()
		}
	}
	return token.NoPos
}

func (f *frame) autoInterval(li *loopInfo, phi *ssa.Phi, entry Sym, cur *State) {
	vc := f.vc
	if _, _, ok := intInfo(phi.Type()); !ok {
		return
	}
	b := li.header
	// all back edges must be phi + c with the same sign
	step := int64(0)
	for i, p := range b.Preds {
		if !b.Dominates(p) {
			continue
		}
		bo, ok := phi.Edges[i].(*ssa.BinOp)
		if !ok || (bo.Op != token.ADD && bo.Op != token.SUB) || bo.X != ssa.Value(phi) {
			return
		}
		c, ok := bo.Y.(*ssa.Const)
		if !ok || c.Value == nil {
			return
		}
		v, ok2 := constant.Int64Val(constant.ToInt(c.Value))
		if !ok2 {
			return
		}
		if bo.Op == token.SUB {
			v = -v
		}
		if step != 0 && (step > 0) != (v > 0) {
			return
		}
		if step == 0 || abs64(v) > abs64(step) {
			step = v
		}
		if bits, signed, _ := intInfo(phi.Type()); bits != 64 || !signed {
			return
		}
	}
	if step == 0 {
		return
	}
	et, ok := entry.(sv)
	if !ok {
		return
	}
	it := vc.scalar(f.env[phi])
	if step > 0 {
		vc.assume(cur, fmt.Sprintf("(<= %s %s)", et.t, it))
	} else {
		vc.assume(cur, fmt.Sprintf("(>= %s %s)", et.t, it))
	}
	// exit test in the header: i < n (n defined outside the loop) with step == +1, or i >= n / i > n with step -1
	last := b.Instrs[len(b.Instrs)-1]
	iff, ok := last.(*ssa.If)
	if !ok {
		return
	}
	cmp, ok := iff.Cond.(*ssa.BinOp)
	if !ok || cmp.X != ssa.Value(phi) {
		return
	}
	// the bound must be loop invariant: a parameter, constant, or defined in a block outside the loop
	if in, isInstr := cmp.Y.(ssa.Instruction); isInstr {
		if li.body[in.Block()] {
			return
		}
	}
	if !li.body[b.Succs[0]] || li.body[b.Succs[1]] {
		return
	}
	// every back edge must be dominated by the true successor
	for _, p := range b.Preds {
		if b.Dominates(p) && !b.Succs[0].Dominates(p) {
			return
		}
	}
	n := vc.scalar(f.val(cmp.Y))
	switch {
	case step == 1 && cmp.Op == token.LSS:
		vc.assume(cur, fmt.Sprintf("(or (<= %s %s) (<= %s %s))", it, n, it, et.t))
	case step == 1 && cmp.Op == token.LEQ:
		vc.assume(cur, fmt.Sprintf("(or (<= %s (+ %s 1)) (<= %s %s))", it, n, it, et.t))
	case step == -1 && cmp.Op == token.GEQ:
		vc.assume(cur, fmt.Sprintf("(or (>= %s (- %s 1)) (>= %s %s))", it, n, it, et.t))
	case step == -1 && cmp.Op == token.GTR:
		vc.assume(cur, fmt.Sprintf("(or (>= %s %s) (>= %s %s))", it, n, it, et.t))
	}
}

func abs64(v int64) int64 {
	if v < 0 {
		return -v
	}
	return v
}

// backEdge is called when block u (with out state st and edge guard g) jumps back to header h.
func (f *frame) backEdge(u, h *ssa.BasicBlock, nth int, st *State, g Term) {
	vc := f.vc
	li := f.loops[h]
	if li == nil || f.specMode {
		return
	}
	pi := predIndex(h, u, nth)
	ov := map[ssa.Value]Sym{}
	for _, in := range h.Instrs {
		if phi, ok := in.(*ssa.Phi); ok {
			ov[phi] = f.val(phi.Edges[pi])
		}
	}
	es := st.clone()
	es.guard = g
	label := fmt.Sprintf("loop%d", li.ordinal)
	if li.spec != nil {
		for i, inv := range li.spec.Invariants {
			t, err := f.evalLoopClause(inv.E, li, es, ov)
			if err != nil {
				vc.errs = append(vc.errs, fmt.Sprintf("%s: %v", inv.Line, err))
				continue
			}
			vc.withTags(f.clauseTags(inv), func() {
				vc.oblige(es, "INV-preserve", fmt.Sprintf("%s%s/%d", f.prefix, label, i+1), t, f.where(firstPos(h)), inv.E.String())
			})
		}
		if li.hasDec {
			t, err := f.evalLoopTerm(li.spec.Decreases.E, li, es, ov)
			if err == nil {
				vc.withTags(f.clauseTags(li.spec.Decreases), func() {
					vc.oblige(es, "DECREASES", f.prefix+label, fmt.Sprintf("(and (<= 0 %s) (< %s %s))", li.v0, t, li.v0), f.where(firstPos(h)), li.spec.Decreases.E.String())
				})
			}
		}
	}
}

func (f *frame) clauseTags(c *Clause) []string {
	if len(c.Tags) > 0 {
		return c.Tags
	}
	if f.ct != nil {
		return f.ct.Tags
	}
	return f.vc.ct.Tags
}

func (vc *VC) withTags(tags []string, fn func()) {
	old := vc.curTags
	vc.curTags = tags
	fn()
	vc.curTags = old
}

// ---------- values ----------

func (f *frame) val(v ssa.Value) Sym {
	if f.override != nil {
		if s, ok := f.override[v]; ok {
			return s
		}
	}
	if s, ok := f.env[v]; ok {
		return s
	}
	vc := f.vc
	switch x := v.(type) {
	case *ssa.Const:
		return vc.constSym(x)
	case *ssa.Global:
		return vc.globalAddr(x)
	case *ssa.Function:
		return sv{vc.eng.funcID(x)}
	case *ssa.Builtin:
		unsup("builtin %s used as value", x.Name())
	case *ssa.FreeVar:
		unsup("free variable %s (closure body) without binding", x.Name())
	}
	unsup("value %s (%T) not available in %s", v.Name(), v, f.fn.Name())
	return nil
}

func (vc *VC) globalAddr(g *ssa.Global) Sym {
	pt := g.Type().(*types.Pointer).Elem()
	name := g.Name()
	if g.Pkg != nil && g.Pkg.Pkg.Name() != "lua" {
		name = g.Pkg.Pkg.Name() + "." + name
	}
	return adv{"G:" + name, nil, pt}
}

func (vc *VC) constSym(c *ssa.Const) Sym {
	t := types.Unalias(c.Type())
	if c.Value == nil {
		// nil / zero value
		if vc.eng.isLValue(t) {
			return sv{"GoNil"}
		}
		switch t.Underlying().(type) {
		case *types.Slice:
			return slv{"0", "0", "0", "0"}
		case *types.Struct:
			return vc.zero(t)
		}
		if b, ok := t.Underlying().(*types.Basic); ok && b.Kind() != types.UntypedNil && b.Kind() != types.UnsafePointer {
			return vc.zero(t)
		}
		return sv{"0"}
	}
	switch c.Value.Kind() {
	case constant.Bool:
		if constant.BoolVal(c.Value) {
			return sv{"true"}
		}
		return sv{"false"}
	case constant.String:
		return sv{vc.strLit(constant.StringVal(c.Value))}
	case constant.Int:
		if vc.eng.sortOf(t) == "F64" {
			f, _ := constant.Float64Val(c.Value)
			return sv{vc.f64Lit(f)}
		}
		bi, _ := new(big.Int).SetString(c.Value.ExactString(), 10)
		return sv{intLit(bi)}
	case constant.Float:
		if vc.eng.sortOf(t) == "F64" {
			f, _ := constant.Float64Val(c.Value)
			return sv{vc.f64Lit(f)}
		}
		bi, _ := new(big.Int).SetString(constant.ToInt(c.Value).ExactString(), 10)
		if bi != nil {
			return sv{intLit(bi)}
		}
	}
	unsup("constant %s", c.String())
	return nil
}

func (f *frame) execBlock(b *ssa.BasicBlock, cur *State) {
	vc := f.vc
	for ii0, in := range b.Instrs {
		if cur.dead {
			break
		}
		if f.depth == 0 && !f.specMode {
			vc.curB, vc.curI = b, ii0
		}
		switch x := in.(type) {
		case *ssa.Phi, *ssa.DebugRef:
			continue
		case *ssa.If, *ssa.Jump:
			// handled at edges
		case *ssa.Return:
			for ii, xi := range b.Instrs {
				if xi == in {
					f.blockHooks(b, ii, in, cur)
					break
				}
			}
			vals := make([]Sym, len(x.Results))
			for i, r := range x.Results {
				vals[i] = f.val(r)
			}
			f.rets = append(f.rets, retInfo{cur.clone(), vals, b})
			cur = &State{dead: true}
		case *ssa.Panic:
			if !f.specMode {
				ok := false
				txt := ""
				if mi, isMI := x.X.(*ssa.MakeInterface); isMI {
					if c, isC := mi.X.(*ssa.Const); isC && c.Value != nil && c.Value.Kind() == constant.String {
						txt = constant.StringVal(c.Value)
					}
				}
				ptype := ""
				if mi, isMI := x.X.(*ssa.MakeInterface); isMI {
					ptype = typeStr(mi.X.Type())
				}
				for _, mp := range vc.mayPanic(f) {
					if mp == "*" || (txt != "" && strings.Contains(txt, mp)) || (strings.HasPrefix(mp, "type ") && strings.HasSuffix(ptype, strings.TrimPrefix(mp, "type "))) {
						ok = true
					}
				}
				if !ok {
					vc.oblige(cur, "SAFE", "panic["+f.srcLabel(x.Pos())+"]", "false", f.where(x.Pos()), "explicit panic is unreachable")
				}
			}
			cur = &State{dead: true}
		default:
			for ii, x := range b.Instrs {
				if x == in {
					f.blockHooks(b, ii, in, cur)
					break
				}
			}
			f.checkAsserts(b, in, cur)
			if f.isCut(in) {
				cur = &State{dead: true}
				break
			}
			func() {
				defer func() {
					if r := recover(); r != nil {
						if u, ok := r.(unsupported); ok && !strings.Contains(u.msg, " @ ") {
							panic(unsupported{fmt.Sprintf("%s [%s @ %s]", u.msg, in.String(), f.where(in.Pos()))})
						}
						panic(r)
					}
				}()
				f.execInstr(in, cur)
			}()
		}
	}
	f.out[b] = cur
	if cur.dead {
		return
	}
	// back edges
	seen := map[*ssa.BasicBlock]int{}
	for _, s := range b.Succs {
		nth := seen[s]
		seen[s]++
		if s.Dominates(b) {
			// which pred occurrence of s is b? count occurrences of b in s.Preds in order
			g := f.edgeGuardFor(b, s, nth)
			f.backEdge(b, s, nth, cur, g)
		}
	}
}

// checkAsserts emits ASSERT obligations for assert@"anchor" clauses anchored on the source line of in.
func (f *frame) checkAsserts(b *ssa.BasicBlock, in ssa.Instruction, cur *State) {
	ct := f.ct
	if ct == nil || len(ct.Asserts) == 0 || !in.Pos().IsValid() || f.specMode || f.depth != 0 {
		return
	}
	if _, isDbg := in.(*ssa.DebugRef); isDbg {
		return
	}
	p := f.vc.eng.fset.Position(in.Pos())
	line := f.vc.eng.sourceLine(p.Filename, p.Line)
	idx := 0
	for i, x := range b.Instrs {
		if x == in {
			idx = i
		}
	}
	for ai, as := range ct.Asserts {
		key := fmt.Sprintf("assert:%d", ai)
		if f.vc.declared[key] || !strings.Contains(line, as.Label) {
			continue
		}
		f.vc.declared[key] = true
		if as.Kind == "from" {
			// verification starts here: arbitrary heap, assumed condition
			f.vc.havocKeys(cur, &writeSet{all: true})
			cur.nonnil = map[Term]bool{}
			sc0 := f.assertScope(b, idx, cur)
			t, err := sc0.evalBool(as.E)
			if err != nil {
				f.vc.errs = append(f.vc.errs, fmt.Sprintf("%s: %v", as.Line, err))
				continue
			}
			f.vc.assume(cur, t)
			f.vc.fromBlock, f.vc.fromIdx = b, idx
			continue
		}
		sc := f.assertScope(b, idx, cur)
		if as.Kind == "let" {
			v, err := sc.eval(as.E)
			if err != nil {
				f.vc.errs = append(f.vc.errs, fmt.Sprintf("%s: %v", as.Line, err))
				continue
			}
			if x, ok := v.sym.(sv); ok {
				if srt := f.vc.eng.sortOf(v.typ); srt != "" {
					v.sym = sv{f.vc.define("ghost_"+as.Name, srt, x.t)}
				}
			}
			if f.vc.ghosts == nil {
				f.vc.ghosts = map[string]tv{}
			}
			f.vc.ghosts[as.Name] = v
			continue
		}
		t, err := sc.evalBool(as.E)
		if err != nil {
			f.vc.errs = append(f.vc.errs, fmt.Sprintf("%s: %v", as.Line, err))
			continue
		}
		tags := as.Tags
		if len(tags) == 0 {
			tags = ct.Tags
		}
		f.vc.withTags(tags, func() {
			f.vc.oblige(cur, "ASSERT", strings.Join(strings.Fields(as.Label), " "), t, f.where(in.Pos()), "assert "+as.E.String())
		})
		f.vc.assume(cur, t)
	}
}

// isCut reports whether instruction in lies on a source line named by a cut@ clause of the verified function.
func (f *frame) isCut(in ssa.Instruction) bool {
	ct := f.ct
	if ct == nil || len(ct.Cuts) == 0 || !in.Pos().IsValid() {
		return false
	}
	p := f.vc.eng.fset.Position(in.Pos())
	line := f.vc.eng.sourceLine(p.Filename, p.Line)
	for _, c := range ct.Cuts {
		if strings.Contains(line, c) {
			f.vc.cutsHit[c] = true
			return true
		}
	}
	return false
}

// useAxioms asserts the declared axioms (once per VC, the first time an uninterpreted spec function is used).
func (vc *VC) useAxioms() {
	if vc.axiomsDone {
		return
	}
	vc.axiomsDone = true
	sc := vc.newScope(vc.entry, vc.entry)
	if vc.entry == nil {
		vc.axiomsDone = false
		return
	}
	for _, ax := range vc.eng.db.Axioms {
		t, err := sc.evalBool(ax.E)
		if err != nil {
			vc.errs = append(vc.errs, fmt.Sprintf("%s: %v", ax.Line, err))
			continue
		}
		// relevance: the axiom is included in a query only if one of its function symbols occurs elsewhere
		var syms []string
		for name := range vc.eng.db.Uninterps {
			if strings.Contains(t, "(u_"+name+" ") {
				syms = append(syms, "(u_"+name+" ")
			}
		}
		for _, sname := range []string{"(i2f ", "(f2i "} {
			if strings.Contains(t, sname) {
				syms = append(syms, sname)
			}
		}
		if vc.axiomLines == nil {
			vc.axiomLines = map[int][]string{}
		}
		vc.axiomLines[len(vc.lines)] = syms
		vc.emit(fmt.Sprintf("(assert %s)", t))
	}
}

func (vc *VC) mayPanic(f *frame) []string {
	if f.ct != nil {
		return f.ct.MayPanic
	}
	return nil
}

func (vc *VC) f64Lit(v float64) Term {
	if !vc.fpMode {
		return fmt.Sprintf("(flit %d)", float64bits(v))
	}
	if v != v {
		return "(_ NaN 11 53)"
	}
	if v > 1.7976931348623157e308 {
		return "(_ +oo 11 53)"
	}
	if v < -1.7976931348623157e308 {
		return "(_ -oo 11 53)"
	}
	bits := float64bits(v)
	return fmt.Sprintf("((_ to_fp 11 53) #x%016x)", bits)
}
