package main

// SMT prelude, solver race, cache.

import (
	"bytes"
	"context"
	"crypto/sha256"
	"encoding/hex"
	"fmt"
	"os"
	"os/exec"
	"path/filepath"
	"strings"
	"sync"
	"time"
)

const preludeFP = `(set-option :produce-models true)
(set-logic ALL)
(declare-sort Str 0)
(define-sort F64 () (_ FloatingPoint 11 53))
(define-fun fadd ((x F64) (y F64)) F64 (fp.add RNE x y))
(define-fun fsub ((x F64) (y F64)) F64 (fp.sub RNE x y))
(define-fun fmul ((x F64) (y F64)) F64 (fp.mul RNE x y))
(define-fun fdiv ((x F64) (y F64)) F64 (fp.div RNE x y))
(define-fun fneg ((x F64)) F64 (fp.neg x))
(define-fun flt ((x F64) (y F64)) Bool (fp.lt x y))
(define-fun fle ((x F64) (y F64)) Bool (fp.leq x y))
(define-fun fgt ((x F64) (y F64)) Bool (fp.gt x y))
(define-fun fge ((x F64) (y F64)) Bool (fp.geq x y))
(define-fun feq ((x F64) (y F64)) Bool (fp.eq x y))
(define-fun fisnan ((x F64)) Bool (fp.isNaN x))
`

const preludeAbs = `(set-option :produce-models true)
(set-logic ALL)
(declare-sort Str 0)
(declare-sort F64 0)
(declare-fun flit (Int) F64)
(declare-fun fadd (F64 F64) F64)
(declare-fun fsub (F64 F64) F64)
(declare-fun fmul (F64 F64) F64)
(declare-fun fdiv (F64 F64) F64)
(declare-fun fneg (F64) F64)
(declare-fun flt (F64 F64) Bool)
(declare-fun fle (F64 F64) Bool)
(declare-fun feq (F64 F64) Bool)
(declare-fun fisnan (F64) Bool)
(define-fun fgt ((x F64) (y F64)) Bool (flt y x))
(define-fun fge ((x F64) (y F64)) Bool (fle y x))
(assert (forall ((x F64)) (! (=> (not (fisnan x)) (feq x x)) :pattern ((feq x x)))))
(assert (forall ((x F64)) (! (not (flt x x)) :pattern ((flt x x)))))
(assert (forall ((x F64) (y F64) (z F64)) (! (=> (and (flt x y) (flt y z)) (flt x z)) :pattern ((flt x y) (flt y z)))))
(assert (forall ((x F64) (y F64)) (! (= (feq x y) (feq y x)) :pattern ((feq x y)))))
`

const smtPrelude = `(declare-datatypes ((LV 0)) (((GoNil) (LNilV) (LBoolV (lvb Bool)) (LNumV (lvn F64)) (LStrV (lvs Str)) (LTabV (lvt Int)) (LFnV (lvf Int)) (LUdV (lvu Int)) (LThV (lvh Int)) (LChV (lvc Int)))))
(declare-fun slen (Str) Int)
(declare-const sempty Str)
(assert (= (slen sempty) 0))
(assert (forall ((s Str)) (! (>= (slen s) 0) :pattern ((slen s)))))
(declare-fun sbyte (Str Int) Int)
(assert (forall ((s Str) (i Int)) (! (and (<= 0 (sbyte s i)) (<= (sbyte s i) 255)) :pattern ((sbyte s i)))))
(declare-fun substr (Str Int Int) Str)
(assert (forall ((s Str) (a Int) (b Int)) (! (=> (and (<= 0 a) (<= a b) (<= b (slen s))) (= (slen (substr s a b)) (- b a))) :pattern ((substr s a b)))))
(assert (forall ((s Str) (a Int) (b Int) (i Int)) (! (=> (and (<= 0 a) (<= a b) (<= b (slen s)) (<= 0 i) (< i (- b a))) (= (sbyte (substr s a b) i) (sbyte s (+ a i)))) :pattern ((sbyte (substr s a b) i)))))
(assert (forall ((s Str) (a Int)) (! (= (substr s a a) sempty) :pattern ((substr s a a)))))
(assert (forall ((s Str)) (! (= (substr s 0 (slen s)) s) :pattern ((substr s 0 (slen s))))))
(declare-fun sconcat (Str Str) Str)
(assert (forall ((a Str) (b Str)) (! (= (slen (sconcat a b)) (+ (slen a) (slen b))) :pattern ((sconcat a b)))))
(declare-fun slt (Str Str) Bool)
(declare-fun str1 (Int) Str)
(assert (forall ((b Int)) (! (= (slen (str1 b)) 1) :pattern ((str1 b)))))
(declare-fun i2f (Int) F64)
(declare-fun f2i (F64) Int)
(declare-fun lvstring (LV) Str)
(declare-fun bytes2str (Int Int Int) Str)
(define-fun go_quo ((a Int) (b Int)) Int (ite (>= a 0) (ite (> b 0) (div a b) (- (div a (- b)))) (ite (> b 0) (- (div (- a) b)) (div (- a) (- b)))))
(define-fun go_rem ((a Int) (b Int)) Int (- a (* b (go_quo a b))))
(declare-fun elemref (Int Int) Int)
(declare-fun elem_arr (Int) Int)
(declare-fun elem_idx (Int) Int)
(assert (forall ((a Int) (i Int)) (! (and (= (elem_arr (elemref a i)) a) (= (elem_idx (elemref a i)) i) (< (elemref a i) 0)) :pattern ((elemref a i)))))
(define-fun lvtype ((v LV)) Int (ite ((_ is LNilV) v) 0 (ite ((_ is LBoolV) v) 1 (ite ((_ is LNumV) v) 2 (ite ((_ is LStrV) v) 3 (ite ((_ is LFnV) v) 4 (ite ((_ is LUdV) v) 5 (ite ((_ is LThV) v) 6 (ite ((_ is LTabV) v) 7 (ite ((_ is LChV) v) 8 9))))))))))
(define-fun lveq ((a LV) (b LV)) Bool (ite (and ((_ is LNumV) a) ((_ is LNumV) b)) (feq (lvn a) (lvn b)) (and (= a b) (not ((_ is LNumV) a)))))
(declare-fun bitand (Int Int) Int)
(declare-fun bitor (Int Int) Int)
(declare-fun bitxor (Int Int) Int)
(declare-fun shl (Int Int) Int)
(declare-fun shr (Int Int) Int)
`

type SolverResult struct {
	Status string // unsat sat unknown timeout error
	Solver string
	Secs   float64
	Output string
}

type solverSpec struct {
	name string
	argv func(file string, timeoutS int) []string
}

var solvers = []solverSpec{
	{"z3-new-5.1.0", func(f string, t int) []string { return []string{"z3-new", fmt.Sprintf("-T:%d", t), f} }},
	{"z3-4.8.12", func(f string, t int) []string { return []string{"z3", fmt.Sprintf("-T:%d", t), f} }},
	{"cvc5-1.0.3", func(f string, t int) []string {
		return []string{"cvc5", "--incremental", fmt.Sprintf("--tlimit=%d", t*1000), f}
	}},
}

var cacheDir = "/verif/.cache"
var cacheMu sync.Mutex
var useCache = true
var keepFiles = false

func cacheKey(q string) string {
	h := sha256.Sum256([]byte(q))
	return hex.EncodeToString(h[:])
}

func cacheGet(q string) (string, bool) {
	if !useCache {
		return "", false
	}
	k := cacheKey(q)
	b, err := os.ReadFile(filepath.Join(cacheDir, k[:2], k))
	if err != nil {
		return "", false
	}
	return strings.TrimSpace(string(b)), true
}

func cachePut(q, solver string) {
	k := cacheKey(q)
	d := filepath.Join(cacheDir, k[:2])
	os.MkdirAll(d, 0o755)
	os.WriteFile(filepath.Join(d, k), []byte(solver), 0o644)
}

// solverSlots bounds the number of solver processes running at once (one per core): a race of three solvers per
// obligation times sixteen obligations would otherwise oversubscribe the machine and turn 5 s queries into timeouts.
var solverSlots = make(chan struct{}, 16)

func runSolverCtx(parent context.Context, s solverSpec, file string, timeoutS int) SolverResult {
	select {
	case solverSlots <- struct{}{}:
	case <-parent.Done():
		return SolverResult{Status: "cancelled", Solver: s.name}
	}
	defer func() { <-solverSlots }()
	if parent.Err() != nil {
		return SolverResult{Status: "cancelled", Solver: s.name}
	}
	argv := s.argv(file, timeoutS)
	ctx, cancel := context.WithTimeout(parent, time.Duration(timeoutS+3)*time.Second)
	defer cancel()
	cmd := exec.CommandContext(ctx, argv[0], argv[1:]...)
	var out bytes.Buffer
	cmd.Stdout = &out
	cmd.Stderr = &out
	t0 := time.Now()
	cmd.Run()
	secs := time.Since(t0).Seconds()
	txt := out.String()
	first := strings.TrimSpace(txt)
	if i := strings.Index(first, "\n"); i >= 0 {
		first = strings.TrimSpace(first[:i])
	}
	st := "error"
	switch {
	case first == "unsat":
		st = "unsat"
	case first == "sat":
		st = "sat"
	case first == "unknown":
		st = "unknown"
	case parent.Err() != nil:
		st = "cancelled"
	case first == "timeout" || strings.Contains(first, "timeout") || ctx.Err() != nil:
		st = "timeout"
	case strings.Contains(txt, "interrupted by timeout") || strings.Contains(txt, "cvc5 interrupted"):
		st = "timeout"
	}
	if len(txt) > 6000 {
		txt = txt[:6000] + "\n...(truncated)"
	}
	return SolverResult{Status: st, Solver: s.name, Secs: secs, Output: txt}
}

func runSolver(s solverSpec, file string, timeoutS int) SolverResult {
	return runSolverCtx(context.Background(), s, file, timeoutS)
}

// solve tries the solvers in order until one answers unsat (discharged) or
// sat (refuted, with a model); returns all results.
func solveOnce(query string, workDir string, name string, timeoutS int) SolverResult {
	file := filepath.Join(workDir, name+".smt2")
	os.WriteFile(file, []byte(query), 0o644)
	r := runSolver(solvers[0], file, timeoutS)
	if !keepFiles {
		os.Remove(file)
	}
	return r
}

func solve(query string, workDir string, name string, timeoutS int, all bool) (final SolverResult, results []SolverResult) {
	if !all {
		if s, ok := cacheGet(query); ok {
			return SolverResult{Status: "unsat", Solver: s + " (cached)"}, nil
		}
	}
	file := filepath.Join(workDir, name+".smt2")
	os.WriteFile(file, []byte(query), 0o644)
	final = SolverResult{Status: "unknown"}
	// first a short attempt with the fastest solver, then a parallel race of all three
	if !all {
		r := runSolver(solvers[0], file, 2)
		if r.Status == "unsat" {
			cachePut(query, r.Solver)
			if !keepFiles {
				os.Remove(file)
			}
			return r, []SolverResult{r}
		}
		if r.Status == "sat" {
			return r, []SolverResult{r}
		}
	}
	ctx, cancel := context.WithCancel(context.Background())
	defer cancel()
	ch := make(chan SolverResult, len(solvers))
	for _, s := range solvers {
		go func(s solverSpec) { ch <- runSolverCtx(ctx, s, file, timeoutS) }(s)
	}
	for range solvers {
		r := <-ch
		if r.Status == "cancelled" {
			continue
		}
		results = append(results, r)
		if r.Status == "unsat" && final.Status != "unsat" {
			final = r
			if !all {
				cancel()
			}
		}
		if r.Status == "sat" && final.Status != "unsat" && final.Status != "sat" {
			final = r
		}
	}
	if all && final.Status == "unsat" {
		// thorough tier: every solver ran; an unsat answer contradicted by a sat answer is not a proof
		for _, r := range results {
			if r.Status == "sat" {
				final = SolverResult{Status: "disagree", Solver: final.Solver + " vs " + r.Solver, Secs: final.Secs,
					Output: "solvers disagree: " + final.Solver + " answered unsat, " + r.Solver + " answered sat"}
				return
			}
		}
	}
	if final.Status == "unsat" {
		if !all {
			cachePut(query, final.Solver)
		}
		if !keepFiles {
			os.Remove(file)
		}
	}
	return
}
