package main

// Calls: contracts (modular), inlining, opaque calls, builtins, write-set analysis, frame checks.

import (
	"fmt"
	"go/token"
	"go/types"
	"sort"
	"strings"

	"golang.org/x/tools/go/ssa"
)

type writeSet struct {
	keys   map[string]bool
	all    bool
	allocs bool
	logs   bool // the ghost call log may grow
}

func (w *writeSet) add(k string) {
	if w.keys == nil {
		w.keys = map[string]bool{}
	}
	w.keys[k] = true
}

// ---------- static write-set analysis (for loop havoc) ----------

// addrBase computes the heap key base written through address value v, statically.
func (vc *VC) addrBase(v ssa.Value) (string, types.Type, bool) {
	switch a := v.(type) {
	case *ssa.FieldAddr:
		pt := types.Unalias(a.X.Type()).Underlying().(*types.Pointer)
		st, _ := isStruct(pt.Elem())
		fld := st.Field(a.Field)
		if inner, ok := a.X.(*ssa.FieldAddr); ok {
			if b, _, ok2 := vc.addrBase(inner); ok2 {
				return b + "." + fld.Name(), fld.Type(), true
			}
			return "", nil, false
		}
		if _, ok := a.X.(*ssa.Alloc); ok {
			// struct allocs are heap refs
		}
		return "F:" + structName(pt.Elem()) + "." + fld.Name(), fld.Type(), true
	case *ssa.IndexAddr:
		var et types.Type
		switch xt := types.Unalias(a.X.Type()).Underlying().(type) {
		case *types.Slice:
			et = xt.Elem()
		case *types.Pointer:
			if at, ok := xt.Elem().Underlying().(*types.Array); ok {
				et = at.Elem()
			}
		}
		if et == nil {
			return "", nil, false
		}
		if _, ok := isStruct(et); ok {
			return "F:" + structName(et), et, true
		}
		return "E:" + typeStr(et), et, true
	case *ssa.Alloc:
		et := a.Type().(*types.Pointer).Elem()
		if _, ok := isStruct(et); ok && a.Heap {
			return "F:" + structName(et), et, true
		}
		return "L:", et, true // local cell: handled by name at execution; conservative marker
	case *ssa.Global:
		g := vc.globalAddr(a).(adv)
		return g.base, g.typ, true
	case *ssa.Parameter:
		if p, ok := types.Unalias(a.Type()).Underlying().(*types.Pointer); ok {
			if _, isS := isStruct(p.Elem()); isS {
				return "F:" + structName(p.Elem()), p.Elem(), true
			}
			return "C:" + typeStr(p.Elem()), p.Elem(), true
		}
	case *ssa.Phi:
		// all edges must agree
		var base string
		var t types.Type
		for i, e := range a.Edges {
			b, bt, ok := vc.addrBase(e)
			if !ok {
				return "", nil, false
			}
			if i > 0 && b != base {
				return "", nil, false
			}
			base, t = b, bt
		}
		return base, t, base != ""
	}
	if _, et, ok := isPtrToStruct(v.Type()); ok {
		return "F:" + structName(et), et, true
	}
	return "", nil, false
}

func (vc *VC) blockWrites(b *ssa.BasicBlock, wk *writeSet, depth int, visiting map[*ssa.Function]bool) {
	if wk.all {
		return
	}
	for _, in := range b.Instrs {
		switch x := in.(type) {
		case *ssa.Store:
			base, t, ok := vc.addrBase(x.Addr)
			if !ok {
				wk.all = true
				return
			}
			if base == "L:" {
				// local cell: find its execution key lazily: mark by alloc name
				if al, isA := x.Addr.(*ssa.Alloc); isA {
					var ks []string
					vc.keysOfType(localKey(al), t, &ks)
					for _, k := range ks {
						wk.add(k)
					}
				}
				continue
			}
			var ks []string
			vc.keysOfType(base, t, &ks)
			for _, k := range ks {
				wk.add(k)
			}
		case *ssa.MapUpdate:
			mt := x.Map.Type().Underlying().(*types.Map)
			base := "M:" + typeStr(mt.Key()) + "->" + typeStr(mt.Elem())
			wk.add(base + "#has")
			wk.add(base + "#val")
			wk.add(base + "#card")
		case *ssa.Alloc:
			wk.allocs = true
			et := x.Type().(*types.Pointer).Elem()
			if _, ok := isStruct(et); ok && x.Heap {
				var ks []string
				vc.keysOfType("F:"+structName(et), et, &ks)
				for _, k := range ks {
					wk.add(k)
				}
			} else if at, ok := et.Underlying().(*types.Array); ok {
				vc.elemKeys(at.Elem(), wk)
			} else {
				var ks []string
				vc.keysOfType(localKey(x), et, &ks)
				for _, k := range ks {
					wk.add(k)
				}
			}
		case *ssa.MakeSlice:
			wk.allocs = true
			vc.elemKeys(x.Type().Underlying().(*types.Slice).Elem(), wk)
		case *ssa.MakeMap:
			wk.allocs = true
			mt := x.Type().Underlying().(*types.Map)
			base := "M:" + typeStr(mt.Key()) + "->" + typeStr(mt.Elem())
			wk.add(base + "#has")
			wk.add(base + "#card")
		case *ssa.MakeClosure, *ssa.MakeChan:
			wk.allocs = true
		case *ssa.Convert:
			if _, ok := x.Type().Underlying().(*types.Slice); ok {
				wk.allocs = true
				wk.add("E:uint8")
			}
		case *ssa.Go, *ssa.Send, *ssa.Select, *ssa.Defer, *ssa.RunDefers:
			wk.all = true
			return
		case *ssa.Call:
			vc.callWrites(x, wk, depth, visiting)
			if wk.all {
				return
			}
		}
	}
}

// localKey: cells of address-taken locals. Non-escaping ones (Alloc.Heap == false) can never be changed by a callee
// and survive havoc-everything; escaping ones ("LH:") are havocked like the heap.
func localKey(a *ssa.Alloc) string {
	if a.Heap {
		return fmt.Sprintf("LH:%s.%s", sanitize(a.Parent().Name()), a.Name())
	}
	return fmt.Sprintf("L:%s.%s", sanitize(a.Parent().Name()), a.Name())
}

func (vc *VC) elemKeys(et types.Type, wk *writeSet) {
	if _, ok := isStruct(et); ok {
		var ks []string
		vc.keysOfType("F:"+structName(et), et, &ks)
		for _, k := range ks {
			wk.add(k)
		}
		return
	}
	if vc.eng.sortOf(et) == "" {
		for _, suf := range []string{"#arr", "#off", "#len", "#cap"} {
			wk.add("E:" + typeStr(et) + suf)
		}
		return
	}
	wk.add("E:" + typeStr(et))
}

func (vc *VC) callWrites(x *ssa.Call, wk *writeSet, depth int, visiting map[*ssa.Function]bool) {
	common := x.Common()
	wk.allocs = true
	if common.IsInvoke() {
		if vc.eng.isLValue(common.Value.Type()) && (common.Method.Name() == "Type" || common.Method.Name() == "String") {
			return
		}
		ct := vc.eng.ifaceContract(common.Value.Type(), common.Method.Name())
		if ct == nil || !ct.HasMod {
			wk.all = true
			return
		}
		vc.contractWrites(ct, vc.eng.ifaceParamTypes(common), wk)
		return
	}
	switch callee := common.Value.(type) {
	case *ssa.Builtin:
		switch callee.Name() {
		case "append":
			st := common.Args[0].Type().Underlying().(*types.Slice)
			vc.elemKeys(st.Elem(), wk)
		case "copy":
			if st, ok := common.Args[0].Type().Underlying().(*types.Slice); ok {
				vc.elemKeys(st.Elem(), wk)
			}
		case "delete":
			mt := common.Args[0].Type().Underlying().(*types.Map)
			base := "M:" + typeStr(mt.Key()) + "->" + typeStr(mt.Elem())
			wk.add(base + "#has")
			wk.add(base + "#card")
		}
		return
	case *ssa.Function:
		ct := vc.eng.contractFor(callee)
		if ct != nil && !ct.Inline {
			if ct.NoReturn {
				return
			}
			if ct.Logged {
				wk.logs = true
			}
			if !ct.HasMod {
				wk.all = true
				return
			}
			vc.contractWrites(ct, vc.eng.paramTypes(callee), wk)
			return
		}
		if vc.eng.inlinable(callee, depth, visiting) {
			visiting[callee] = true
			for _, b := range callee.Blocks {
				vc.blockWrites(b, wk, depth+1, visiting)
			}
			delete(visiting, callee)
			return
		}
	}
	wk.all = true
}

// contractWrites adds the keys named by a contract's modifies clause (type level).
func (vc *VC) contractWrites(ct *Contract, params map[string]types.Type, wk *writeSet) {
	for _, mi := range ct.Modifies {
		switch mi.Kind {
		case "everything":
			wk.all = true
			return
		case "nothing":
		case "ghost":
			for _, ab := range vc.eng.db.Abstracts {
				wk.add("A:" + ab.Name)
			}
		case "field", "elems", "fields", "cell", "map":
			t := vc.eng.staticType(mi.E, params)
			if t == nil {
				wk.all = true
				return
			}
			switch mi.Kind {
			case "map":
				if mt, ok := t.Underlying().(*types.Map); ok {
					base := "M:" + typeStr(mt.Key()) + "->" + typeStr(mt.Elem())
					wk.add(base + "#has")
					wk.add(base + "#val")
					wk.add(base + "#card")
				} else {
					wk.all = true
				}
			case "cell":
				if p, ok := t.Underlying().(*types.Pointer); ok {
					wk.add("C:" + typeStr(p.Elem()))
				} else {
					wk.all = true
				}
			case "field":
				st, et, ok := structOf(t)
				if !ok {
					wk.all = true
					return
				}
				fi := fieldIndex(st, mi.Name)
				if fi < 0 {
					wk.all = true
					return
				}
				var ks []string
				vc.keysOfType("F:"+structName(et)+"."+mi.Name, st.Field(fi).Type(), &ks)
				for _, k := range ks {
					wk.add(k)
				}
			case "fields":
				_, et, ok := structOf(t)
				if !ok {
					wk.all = true
					return
				}
				var ks []string
				vc.keysOfType("F:"+structName(et), et, &ks)
				for _, k := range ks {
					wk.add(k)
				}
			case "elems":
				switch u := t.Underlying().(type) {
				case *types.Slice:
					vc.elemKeys(u.Elem(), wk)
				case *types.Array:
					vc.elemKeys(u.Elem(), wk)
				default:
					wk.all = true
				}
			}
		case "tmap", "tfelems":
			j := strings.LastIndex(mi.Name, ".")
			t := vc.eng.typeByText(mi.Name[:j])
			st, _, ok := structOf(t)
			if !ok {
				wk.all = true
				return
			}
			fi := fieldIndex(st, mi.Name[j+1:])
			if fi < 0 {
				wk.all = true
				return
			}
			ft := st.Field(fi).Type()
			if mi.Kind == "tmap" {
				mt, ok := ft.Underlying().(*types.Map)
				if !ok {
					wk.all = true
					return
				}
				base := "M:" + typeStr(mt.Key()) + "->" + typeStr(mt.Elem())
				wk.add(base + "#has")
				wk.add(base + "#val")
				wk.add(base + "#card")
			} else {
				sl, ok := ft.Underlying().(*types.Slice)
				if !ok {
					wk.all = true
					return
				}
				vc.elemKeys(sl.Elem(), wk)
			}
		case "tfield":
			j := strings.LastIndex(mi.Name, ".")
			t := vc.eng.typeByText(mi.Name[:j])
			st, _, ok := structOf(t)
			if !ok {
				wk.all = true
				return
			}
			fi := fieldIndex(st, mi.Name[j+1:])
			if fi < 0 {
				wk.all = true
				return
			}
			var ks []string
			vc.keysOfType("F:"+structName(derefT(t))+"."+mi.Name[j+1:], st.Field(fi).Type(), &ks)
			for _, k := range ks {
				wk.add(k)
			}
		case "tfields":
			t := vc.eng.typeByText(mi.Name)
			if _, _, ok := structOf(t); !ok {
				wk.all = true
				return
			}
			var ks []string
			vc.keysOfType("F:"+structName(derefT(t)), derefT(t), &ks)
			for _, k := range ks {
				wk.add(k)
			}
		case "telems":
			t := vc.eng.typeByText(mi.Name)
			if t == nil {
				wk.all = true
				return
			}
			vc.elemKeys(t, wk)
		}
	}
}

func derefT(t types.Type) types.Type {
	if p, ok := types.Unalias(t).Underlying().(*types.Pointer); ok {
		return p.Elem()
	}
	return t
}

func structOf(t types.Type) (*types.Struct, types.Type, bool) {
	if t == nil {
		return nil, nil, false
	}
	et := derefT(t)
	st, ok := isStruct(et)
	return st, et, ok
}

func fieldIndex(st *types.Struct, name string) int {
	for i := 0; i < st.NumFields(); i++ {
		if st.Field(i).Name() == name {
			return i
		}
	}
	return -1
}

// ---------- modifies evaluation ----------

type modSet struct {
	all     bool
	keyAll  map[string]bool
	refs    map[string][]Term // F:/C: key -> allowed refs
	arrs    map[string][]Term // E: key or F: key (struct elements) -> allowed backing arrays
	allocAt Term
}

func newModSet() *modSet {
	return &modSet{keyAll: map[string]bool{}, refs: map[string][]Term{}, arrs: map[string][]Term{}}
}

// evalModifies turns modifies items into a modSet, evaluating object expressions in state st.
func (vc *VC) evalModifies(ct *Contract, sc *Scope, post *State) (*modSet, error) {
	ms := newModSet()
	for _, mi := range ct.Modifies {
		switch mi.Kind {
		case "everything":
			ms.all = true
		case "nothing":
		case "tfield", "tfields", "telems", "tmap", "tfelems":
			wk := &writeSet{}
			c2 := &Contract{Modifies: []ModItem{mi}}
			vc.contractWrites(c2, nil, wk)
			if wk.all {
				return nil, fmt.Errorf("cannot resolve modifies item %q", mi.Src)
			}
			for k := range wk.keys {
				ms.keyAll[k] = true
			}
		case "map":
			states := []*State{sc.cur}
			if post != nil {
				states = append(states, post)
			}
			for _, stt := range states {
				sc2 := *sc
				sc2.cur = stt
				v, err := sc2.eval(mi.E)
				if err != nil {
					return nil, err
				}
				mt, ok := v.typ.Underlying().(*types.Map)
				r, isRef := v.sym.(sv)
				if !ok || !isRef {
					return nil, fmt.Errorf("modifies %s: not a map", mi.Src)
				}
				mk := (&frame{vc: vc}).mapKeys(mt)
				vc.keyOf(mk.has, mk.hasSort)
				vc.keyOf(mk.val, mk.valSort)
				vc.keyOf(mk.card, "(Array Int Int)")
				for _, k := range []string{mk.has, mk.val, mk.card} {
					ms.refs[k] = append(ms.refs[k], r.t)
				}
			}
		case "ghost":
			v, err := sc.eval(mi.E)
			if err != nil {
				return nil, err
			}
			r, isRef := v.sym.(sv)
			if !isRef {
				return nil, fmt.Errorf("modifies %s: not an object", mi.Src)
			}
			iname := namedName(v.typ)
			for _, ab := range vc.eng.db.Abstracts {
				if ab.Iface != iname {
					continue
				}
				rt := vc.eng.typeByText(ab.Ret)
				sort := vc.eng.sortOf(rt)
				key := "A:" + ab.Name
				vc.keyOf(key, arraySort(idxSorts(1+len(ab.Params)), sort))
				if refLike(rt) {
					vc.markRef(key)
				}
				ms.refs[key] = append(ms.refs[key], r.t)
			}
		case "cell":
			v, err := sc.eval(mi.E)
			if err != nil {
				return nil, err
			}
			a, ok := v.sym.(adv)
			if !ok || len(a.idx) > 2 {
				return nil, fmt.Errorf("modifies *%s: not a cell pointer", mi.E)
			}
			var ks []string
			vc.keysOfType(a.base, a.typ, &ks)
			vc.touchKeysForType(sc.cur, a.base, a.typ, len(a.idx))
			for _, k := range ks {
				switch len(a.idx) {
				case 0:
					ms.keyAll[k] = true
				case 1:
					ms.refs[k] = append(ms.refs[k], a.idx[0])
				case 2:
					// element of a slice: the whole backing array row is considered modified (over-approximation)
					ms.arrs[k] = append(ms.arrs[k], a.idx[0])
				}
			}
		case "field", "fields":
			v, err := sc.eval(mi.E)
			if err != nil {
				return nil, err
			}
			st, et, ok := structOf(v.typ)
			r, isRef := v.sym.(sv)
			if !ok || !isRef {
				return nil, fmt.Errorf("modifies %s: object is not a struct pointer", mi.Src)
			}
			var ks []string
			if mi.Kind == "field" {
				fi := fieldIndex(st, mi.Name)
				if fi < 0 {
					return nil, fmt.Errorf("modifies %s: no field %s", mi.Src, mi.Name)
				}
				vc.keysOfType("F:"+structName(et)+"."+mi.Name, st.Field(fi).Type(), &ks)
				vc.touchKeysForType(sc.cur, "F:"+structName(et)+"."+mi.Name, st.Field(fi).Type(), 1)
			} else {
				vc.keysOfType("F:"+structName(et), et, &ks)
				vc.touchKeysForType(sc.cur, "F:"+structName(et), et, 1)
			}
			for _, k := range ks {
				ms.refs[k] = append(ms.refs[k], r.t)
			}
		case "elems":
			states := []*State{sc.cur}
			if post != nil {
				states = append(states, post)
			}
			for _, stt := range states {
				sc2 := *sc
				sc2.cur = stt
				v, err := sc2.eval(mi.E)
				if err != nil {
					return nil, err
				}
				var arr Term
				var et types.Type
				switch s := v.sym.(type) {
				case slv:
					arr = s.arr
					et = v.typ.Underlying().(*types.Slice).Elem()
				case arrPtr:
					arr = s.arr
					et = s.elem
				default:
					return nil, fmt.Errorf("modifies %s: not a slice or array", mi.Src)
				}
				wk := &writeSet{}
				vc.elemKeys(et, wk)
				if _, isS := isStruct(et); isS {
					vc.touchKeysForType(sc.cur, "F:"+structName(et), et, 1)
				} else {
					vc.touchKeysForType(sc.cur, "E:"+typeStr(et), et, 2)
				}
				for k := range wk.keys {
					ms.arrs[k] = append(ms.arrs[k], arr)
				}
			}
		}
	}
	return ms, nil
}

// applyHavoc forgets everything a modSet allows to change.
func (vc *VC) applyHavoc(st *State, ms *modSet) {
	if ms.all {
		vc.havocKeys(st, &writeSet{all: true})
		return
	}
	vc.havocKeys(st, &writeSet{keys: ms.keyAll, allocs: true})
	var ks []string
	for k := range ms.refs {
		ks = append(ks, k)
	}
	sort.Strings(ks)
	for _, k := range ks {
		if ms.keyAll[k] {
			continue
		}
		ki := vc.keys[k]
		if ki == nil {
			// key never touched so far in this VC: give it its sort lazily by a dummy typed access
			continue
		}
		h := vc.heapGet(st, k, ki.sort)
		for _, r := range ms.refs[k] {
			vs := elemSortOf(ki.sort)
			hv := vc.fresh("hv", vs)
			if vc.refKeys[k] && vs == "Int" {
				vc.emit(fmt.Sprintf("(assert (< %s %s))", hv, st.alloc))
			}
			if it, ok := vc.keyInt[k]; ok && vs == "Int" {
				vc.emit(fmt.Sprintf("(assert %s)", rangeFact(it, hv)))
			}
			h = fmt.Sprintf("(store %s %s %s)", h, r, hv)
		}
		st.heap[k] = vc.define("H_"+ki.name, ki.sort, h)
	}
	// havocked slice headers stay well-formed
	for _, k := range ks {
		if !strings.HasSuffix(k, "#arr") || ms.keyAll[k] || vc.keys[k] == nil || vc.keys[k].sort != "(Array Int Int)" {
			continue
		}
		pre := strings.TrimSuffix(k, "#arr")
		for _, r := range ms.refs[k] {
			var p [4]Term
			okAll := true
			for j, suf := range []string{"#arr", "#off", "#len", "#cap"} {
				if vc.keys[pre+suf] == nil {
					okAll = false
					break
				}
				p[j] = fmt.Sprintf("(select %s %s)", vc.heapGet(st, pre+suf, "(Array Int Int)"), r)
			}
			if okAll {
				vc.emit(fmt.Sprintf("(assert (and (<= 0 %s) (<= 0 %s) (<= 0 %s) (<= %s %s) (<= (+ %s %s) %s) (=> (= %s 0) (= %s 0))))", p[0], p[1], p[2], p[2], p[3], p[1], p[3], maxSliceLen, p[0], p[3]))
			}
		}
	}
	ks = ks[:0]
	for k := range ms.arrs {
		ks = append(ks, k)
	}
	sort.Strings(ks)
	for _, k := range ks {
		if ms.keyAll[k] {
			continue
		}
		ki := vc.keys[k]
		if ki == nil {
			continue
		}
		h := vc.heapGet(st, k, ki.sort)
		if strings.HasPrefix(k, "E:") {
			for _, a := range ms.arrs[k] {
				row := vc.fresh("hrow", elemSortOf(ki.sort))
				if vc.refKeys[k] && elemSortOf(ki.sort) == "(Array Int Int)" {
					vc.emit(fmt.Sprintf("(assert (forall ((x Int)) (! (< (select %s x) %s) :pattern ((select %s x)))))", row, st.alloc, row))
				}
				h = fmt.Sprintf("(store %s %s %s)", h, a, row)
			}
			st.heap[k] = vc.define("H_"+ki.name, ki.sort, h)
		} else {
			// struct elements: fields of refs whose elem_arr is one of the arrays
			nh := vc.fresh("H_"+ki.name, ki.sort)
			var conds []Term
			for _, a := range ms.arrs[k] {
				conds = append(conds, fmt.Sprintf("(= (elem_arr r) %s)", a))
			}
			vc.emit(fmt.Sprintf("(assert (forall ((r Int)) (! (=> (not (and (< r 0) %s)) (= (select %s r) (select %s r))) :pattern ((select %s r)))))", or(conds...), nh, h, nh))
			st.heap[k] = nh
		}
	}
}

func elemSortOf(arraySortStr string) string {
	// "(Array Int X)" -> X
	s := strings.TrimPrefix(arraySortStr, "(Array Int ")
	return strings.TrimSuffix(s, ")")
}

// ensureKeys makes sure every key in the modSet has a known sort (by touching it with its type).
func (vc *VC) touchKeysForType(st *State, base string, t types.Type, nidx int) {
	var ks []string
	vc.keysOfType(base, t, &ks)
	for _, k := range ks {
		if vc.keys[k] != nil {
			continue
		}
		suffix := strings.TrimPrefix(k, base)
		ft := vc.fieldTypeOfKey(t, suffix)
		sort := vc.eng.sortOf(ft)
		if sort == "" {
			sort = "Int"
		}
		vc.keyOf(k, arraySort(idxSorts(nidx), sort))
	}
}

// frameCheck emits a FRAME obligation for a store to address a (top-level function's modifies).
func (f *frame) frameCheck(cur *State, a adv, pos token.Pos) {
	vc := f.vc
	if vc.modSet == nil || vc.modSet.all || f.specMode {
		return
	}
	var ks []string
	vc.keysOfType(a.base, a.typ, &ks)
	for _, k := range ks {
		if strings.HasPrefix(k, "L:") || strings.HasPrefix(k, "LH:") {
			continue
		}
		var ix Term
		if len(a.idx) > 0 {
			ix = a.idx[0]
		}
		f.frameCheckKey(cur, k, ix, pos)
	}
}

func (f *frame) frameCheckKey(cur *State, k string, ix Term, pos token.Pos) {
	vc := f.vc
	ms := vc.modSet
	if ms == nil || ms.all || f.specMode || ms.keyAll[k] {
		return
	}
	if ix == "" {
		vc.oblige(cur, "FRAME", "store["+f.srcLabel(pos)+"]", "false", f.where(pos), "write to "+k+" is not covered by the modifies clause")
		return
	}
	var alts []Term
	alts = append(alts, fmt.Sprintf("(>= %s %s)", ix, ms.allocAt))
	if strings.HasPrefix(k, "F:") {
		// a struct stored inline in a backing array allocated by this activation
		alts = append(alts, fmt.Sprintf("(and (< %s 0) (>= (elem_arr %s) %s))", ix, ix, ms.allocAt))
	}
	for _, r := range ms.refs[k] {
		if r == ix {
			return
		}
		alts = append(alts, fmt.Sprintf("(= %s %s)", ix, r))
	}
	for _, a := range ms.arrs[k] {
		if strings.HasPrefix(k, "E:") || strings.HasPrefix(k, "M:") {
			if a == ix {
				return
			}
			alts = append(alts, fmt.Sprintf("(= %s %s)", ix, a))
		} else {
			alts = append(alts, fmt.Sprintf("(and (< %s 0) (= (elem_arr %s) %s))", ix, ix, a))
		}
	}
	vc.oblige(cur, "FRAME", "store["+f.srcLabel(pos)+"]", or(alts...), f.where(pos), "write to "+k+" stays inside the modifies clause")
}

// frameCheckCall checks that a callee's modifies set is inside the verified function's.
func (f *frame) frameCheckCall(cur *State, callee string, cms *modSet, pos token.Pos) {
	vc := f.vc
	ms := vc.modSet
	if ms == nil || ms.all || f.specMode {
		return
	}
	if cms.all {
		vc.oblige(cur, "FRAME", "call["+callee+"]", "false", f.where(pos), "callee may modify everything; caller's modifies clause does not allow that")
		return
	}
	for k := range cms.keyAll {
		if strings.HasPrefix(k, "L:") || strings.HasPrefix(k, "LH:") {
			continue // locals of the verified function are never part of its frame
		}
		if !ms.keyAll[k] {
			vc.oblige(cur, "FRAME", "call["+callee+"]", "false", f.where(pos), "callee modifies every "+k)
		}
	}
	var ks []string
	for k := range cms.refs {
		ks = append(ks, k)
	}
	sort.Strings(ks)
	for _, k := range ks {
		for _, r := range cms.refs[k] {
			f.frameCheckKeyNamed(cur, k, r, pos, "call["+callee+"]")
		}
	}
	ks = ks[:0]
	for k := range cms.arrs {
		ks = append(ks, k)
	}
	sort.Strings(ks)
	for _, k := range ks {
		for _, a := range cms.arrs[k] {
			if ms.keyAll[k] {
				continue
			}
			// a nil backing array / nil map has no cell to write (the callee's own fresh allocation is covered by >= allocAt)
			alts := []Term{fmt.Sprintf("(>= %s %s)", a, ms.allocAt), fmt.Sprintf("(= %s 0)", a)}
			done := false
			for _, b := range ms.arrs[k] {
				if a == b {
					done = true
				}
				alts = append(alts, fmt.Sprintf("(= %s %s)", a, b))
			}
			if !done {
				vc.oblige(cur, "FRAME", "call["+callee+"]", or(alts...), f.where(pos), "callee writes elements ("+k+") outside the caller's modifies clause")
			}
		}
	}
}

func (f *frame) frameCheckKeyNamed(cur *State, k string, ix Term, pos token.Pos, label string) {
	vc := f.vc
	ms := vc.modSet
	if ms.keyAll[k] {
		return
	}
	alts := []Term{fmt.Sprintf("(>= %s %s)", ix, ms.allocAt)}
	if strings.HasPrefix(k, "F:") {
		alts = append(alts, fmt.Sprintf("(and (< %s 0) (>= (elem_arr %s) %s))", ix, ix, ms.allocAt))
	}
	if strings.HasPrefix(k, "M:") {
		// a nil map has no entry to write (writing one panics): the callee can only have written a map it allocated itself
		alts = append(alts, fmt.Sprintf("(= %s 0)", ix))
	}
	for _, r := range ms.refs[k] {
		if r == ix {
			return
		}
		alts = append(alts, fmt.Sprintf("(= %s %s)", ix, r))
	}
	for _, a := range ms.arrs[k] {
		if !strings.HasPrefix(k, "E:") {
			alts = append(alts, fmt.Sprintf("(and (< %s 0) (= (elem_arr %s) %s))", ix, ix, a))
		}
	}
	vc.oblige(cur, "FRAME", label, or(alts...), f.where(pos), "callee write to "+k+" stays inside the caller's modifies clause")
}

// ---------- calls ----------

func (f *frame) call(x *ssa.Call, cur *State) {
	common := x.Common()
	if common.IsInvoke() {
		f.invoke(x, cur)
		return
	}
	switch callee := common.Value.(type) {
	case *ssa.Builtin:
		f.builtin(x, callee.Name(), cur)
		return
	case *ssa.Function:
		args := make([]Sym, len(common.Args))
		for i, a := range common.Args {
			args[i] = f.val(a)
		}
		f.staticCall(x, callee, args, nil, cur)
		return
	case *ssa.MakeClosure:
		fn := callee.Fn.(*ssa.Function)
		args := make([]Sym, len(common.Args))
		for i, a := range common.Args {
			args[i] = f.val(a)
		}
		binds := make([]Sym, len(callee.Bindings))
		for i, b := range callee.Bindings {
			binds[i] = f.val(b)
		}
		f.staticCall(x, fn, args, binds, cur)
		return
	}
	// dynamic call through a function value: a contract by the named function type (dyn T), else opaque
	if n := namedName(common.Value.Type()); n != "" {
		if ct := f.vc.eng.db.Contracts["dyn "+n]; ct != nil {
			sig := common.Signature()
			var params []paramInfo
			for i := 0; i < sig.Params().Len(); i++ {
				name := sig.Params().At(i).Name()
				if name == "" {
					name = fmt.Sprintf("arg%d", i)
				}
				params = append(params, paramInfo{name, sig.Params().At(i).Type()})
			}
			args := make([]Sym, len(common.Args))
			for i, a := range common.Args {
				args[i] = f.val(a)
			}
			f.env[x] = f.applyContract(ct, ct.Key, params, args, sig.Results(), cur, x.Pos())
			return
		}
	}
	f.opaqueCall(x, "dynamic call "+common.Value.Name(), cur)
}

func (f *frame) opaqueCall(x *ssa.Call, what string, cur *State) {
	vc := f.vc
	vc.opaqueCalls++
	if !f.specMode {
		f.frameCheckCall(cur, what, &modSet{all: true}, x.Pos())
	}
	vc.havocKeys(cur, &writeSet{all: true})
	cur.nonnil = map[Term]bool{}
	f.setResult(x, cur)
	f.raisePoint(cur, nil, nil, what, x.Pos())
}

func (f *frame) setResult(x *ssa.Call, cur *State) {
	sig := x.Common().Signature()
	switch sig.Results().Len() {
	case 0:
		f.env[x] = tuv{}
	case 1:
		f.env[x] = f.vc.symbolic(cur, "r_"+x.Name(), sig.Results().At(0).Type(), false)
	default:
		f.env[x] = f.vc.symbolic(cur, "r_"+x.Name(), sig.Results(), false)
	}
}

func (e *Engine) inlinable(fn *ssa.Function, depth int, visiting map[*ssa.Function]bool) bool {
	if len(fn.Blocks) == 0 || depth >= 5 || visiting[fn] {
		return false
	}
	if v, ok := e.inlCache[fn]; ok {
		return v
	}
	n := 0
	ok := true
	// only code of the repository is executed symbolically; library functions are used through extern contracts
	if fn.Pkg == nil || e.pkgs[fn.Pkg.Pkg.Name()] != fn.Pkg {
		if fn.Parent() == nil || fn.Parent().Pkg == nil || e.pkgs[fn.Parent().Pkg.Pkg.Name()] != fn.Parent().Pkg {
			ok = false
		}
	}
	for _, b := range fn.Blocks {
		for _, s := range b.Succs {
			if s.Dominates(b) {
				ok = false
			}
		}
		for _, in := range b.Instrs {
			switch in.(type) {
			case *ssa.DebugRef:
				continue
			case *ssa.Defer, *ssa.Go, *ssa.Select, *ssa.Send, *ssa.Range:
				ok = false
			}
			n++
		}
	}
	if n > 90 {
		ok = false
	}
	e.inlCache[fn] = ok
	return ok
}

func (f *frame) chain() map[*ssa.Function]bool {
	m := map[*ssa.Function]bool{f.fn: true}
	for _, c := range f.callers {
		m[c] = true
	}
	return m
}

func (f *frame) staticCall(x *ssa.Call, fn *ssa.Function, args []Sym, binds []Sym, cur *State) {
	vc := f.vc
	e := vc.eng
	ct := e.contractFor(fn)
	if ct != nil && !ct.Inline {
		f.env[x] = f.applyContract(ct, fn.String(), e.paramList(fn), args, fn.Signature.Results(), cur, x.Pos())
		return
	}
	if e.inlinable(fn, f.depth, f.chain()) {
		f.env[x] = f.inlineCall(fn, args, binds, cur, ct)
		return
	}
	f.opaqueCall(x, "call of "+e.keyOf(fn)+" (no contract)", cur)
}

func (f *frame) inlineCall(fn *ssa.Function, args []Sym, binds []Sym, cur *State, ct *Contract) Sym {
	vc := f.vc
	nf := vc.newFrame(fn, f.depth+1)
	nf.prefix = f.prefix + fn.Name() + ">"
	nf.specMode = f.specMode
	nf.callers = append(append([]*ssa.Function{}, f.callers...), f.fn)
	nf.ct = ct
	for i, p := range fn.Params {
		nf.env[p] = args[i]
	}
	for i, fv := range fn.FreeVars {
		if i < len(binds) {
			nf.env[fv] = binds[i]
		}
	}
	nf.run(cur)
	var guards []Term
	var sts []*State
	for _, r := range nf.rets {
		if r.st.dead {
			continue
		}
		guards = append(guards, r.st.guard)
		sts = append(sts, r.st)
	}
	if len(sts) == 0 {
		cur.dead = true
		return tuv{}
	}
	merged := vc.mergeStates("ret_"+fn.Name(), guards, sts)
	if len(sts) == 1 {
		merged.guard = sts[0].guard
	}
	*cur = *merged
	nres := fn.Signature.Results().Len()
	if nres == 0 {
		return tuv{}
	}
	res := make([]Sym, nres)
	for i := 0; i < nres; i++ {
		vals := make([]Sym, 0, len(sts))
		for _, r := range nf.rets {
			if r.st.dead {
				continue
			}
			vals = append(vals, r.vals[i])
		}
		res[i] = vc.mergeSyms("ret_"+fn.Name(), fn.Signature.Results().At(i).Type(), guards, vals)
	}
	if nres == 1 {
		return res[0]
	}
	return tuv{res}
}

type paramInfo struct {
	name string
	typ  types.Type
}

func (e *Engine) paramList(fn *ssa.Function) []paramInfo {
	var ps []paramInfo
	for _, p := range fn.Params {
		ps = append(ps, paramInfo{p.Name(), p.Type()})
	}
	return ps
}

func (e *Engine) paramTypes(fn *ssa.Function) map[string]types.Type {
	m := map[string]types.Type{}
	for _, p := range fn.Params {
		m[p.Name()] = p.Type()
	}
	return m
}

func (e *Engine) ifaceParamTypes(c *ssa.CallCommon) map[string]types.Type {
	m := map[string]types.Type{"self": c.Value.Type()}
	sig := c.Method.Type().(*types.Signature)
	for i := 0; i < sig.Params().Len(); i++ {
		m[sig.Params().At(i).Name()] = sig.Params().At(i).Type()
	}
	return m
}

// applyContract: assert requires, havoc modifies, assume ensures.
func (f *frame) applyContract(ct *Contract, calleeName string, params []paramInfo, args []Sym, results *types.Tuple, cur *State, pos token.Pos) Sym {
	vc := f.vc
	short := ct.Key
	vc.occ["call:"+short]++
	occ := vc.occ["call:"+short]
	label := fmt.Sprintf("%s%s#%d", f.prefix, short, occ)
	sc := vc.newScope(cur, cur)
	for i, p := range params {
		if i < len(args) {
			sc.vars[p.name] = tv{args[i], p.typ}
		}
	}
	// implicit: pointer receiver / self is non-nil
	if len(params) > 0 && !f.specMode {
		if _, _, ok := isPtrToStruct(params[0].typ); ok && (ct.KeyKind == "func" || ct.KeyKind == "trusted") && strings.HasPrefix(ct.Key, "(") || strings.HasPrefix(ct.Key, "pm.(") {
			if r, isRef := args[0].(sv); isRef && !cur.nonnil[r.t] {
				vc.withTags(vc.ct.Tags, func() {
					vc.oblige(cur, "PRE", label+"/recv-nonnil", fmt.Sprintf("(not (= %s 0))", r.t), f.where(pos), "receiver of "+short+" is non-nil")
				})
				cur.nonnil[r.t] = true
			}
		}
	}
	if !f.specMode {
		for i, rq := range ct.Requires {
			if rq.Assumed {
				continue // entry-assumes: not checked at call sites
			}
			t, err := sc.evalBool(rq.E)
			if err != nil {
				vc.errs = append(vc.errs, fmt.Sprintf("%s: %v", rq.Line, err))
				continue
			}
			// a precondition at a call site is an obligation of the CALLER: it carries the caller's property tags
			vc.withTags(vc.ct.Tags, func() {
				vc.oblige(cur, "PRE", fmt.Sprintf("%s/%d", label, i+1), t, f.where(pos), "requires "+rq.E.String())
			})
		}
	}
	f.raisePoint(cur, ct, sc, short, pos)
	if ct.NoReturn {
		cur.dead = true
		return f.deadResult(results)
	}
	pre := cur.clone()
	// modifies
	var ms *modSet
	if ct.HasMod {
		var err error
		ms, err = vc.evalModifies(ct, sc, nil)
		if err != nil {
			vc.errs = append(vc.errs, fmt.Sprintf("%s: %v", ct.Line, err))
			ms = &modSet{all: true}
		}
	} else {
		ms = &modSet{all: true}
	}
	f.frameCheckCall(cur, short, ms, pos)
	vc.applyHavoc(cur, ms)
	// elems items whose slice field is itself modified: also havoc the row of the new slice
	if !ms.all {
		for _, mi := range ct.Modifies {
			if mi.Kind != "elems" {
				continue
			}
			sc2 := vc.newScope(cur, pre)
			sc2.vars = sc.vars
			v, err := sc2.eval(mi.E)
			if err != nil {
				continue
			}
			if s, ok := v.sym.(slv); ok {
				et := v.typ.Underlying().(*types.Slice).Elem()
				wk := &writeSet{}
				vc.elemKeys(et, wk)
				for k := range wk.keys {
					if !strings.HasPrefix(k, "E:") || ms.keyAll[k] {
						continue
					}
					already := false
					for _, a := range ms.arrs[k] {
						if a == s.arr {
							already = true
						}
					}
					if already {
						continue
					}
					if ki := vc.keys[k]; ki != nil {
						h := vc.heapGet(cur, k, ki.sort)
						cur.heap[k] = vc.define("H_"+ki.name, ki.sort, fmt.Sprintf("(store %s %s %s)", h, s.arr, vc.fresh("hrow", elemSortOf(ki.sort))))
					}
				}
			}
		}
	}
	// results
	var res Sym
	var rtv []tv
	switch results.Len() {
	case 0:
		res = tuv{}
	case 1:
		res = vc.symbolic(cur, "r_"+sanitize(short), results.At(0).Type(), false)
		rtv = []tv{{res, results.At(0).Type()}}
	default:
		r := vc.symbolic(cur, "r_"+sanitize(short), results, false).(tuv)
		res = r
		for i := range r.e {
			rtv = append(rtv, tv{r.e[i], results.At(i).Type()})
		}
	}
	if ct.Logged {
		// extra recorded values: pre-state expressions at argument positions 10.., post-state at result positions 10..
		n0 := vc.heapGet(cur, "Z:n", "Int")
		for i, ex := range ct.LogPre {
			v, err := sc.eval(ex)
			if err != nil {
				vc.errs = append(vc.errs, fmt.Sprintf("%s: %v", ct.Line, err))
				continue
			}
			scp := vc.newScope(pre, pre)
			scp.vars = sc.vars
			v, err = scp.eval(ex)
			if err != nil {
				continue
			}
			if s, ok := v.sym.(sv); ok {
				if sort := vc.eng.sortOf(v.typ); sort != "" {
					vc.storeScalar(cur, fmt.Sprintf("Z:a%d:%s", 10+i, sort), []Term{n0}, sort, s.t)
				}
			}
		}
		for i, ex := range ct.LogPost {
			scp := vc.newScope(cur, pre)
			scp.vars = sc.vars
			v, err := scp.eval(ex)
			if err != nil {
				vc.errs = append(vc.errs, fmt.Sprintf("%s: %v", ct.Line, err))
				continue
			}
			if s, ok := v.sym.(sv); ok {
				if sort := vc.eng.sortOf(v.typ); sort != "" {
					vc.storeScalar(cur, fmt.Sprintf("Z:r%d:%s", 10+i, sort), []Term{n0}, sort, s.t)
				}
			}
		}
		f.logCall(cur, ct, params, args, rtv)
	}
	// The ghost call log is per activation: it records the logged calls made DIRECTLY by the function under
	// verification. A callee's own calls are not part of it, so nothing else happens to the log here and the callee's
	// clauses about its own log are not assumed below.
	post := vc.newScope(cur, pre)
	post.vars = sc.vars
	post.results = rtv
	post.resultNames = resultNames(results)
	ghosts := letNames(ct)
	for _, en := range ct.Ensures {
		if mentionsLog(en.E) || mentionsName(en.E, ghosts) {
			// clauses about the callee's own call log or its let@ ghost constants mean nothing to a caller: not assumed
			continue
		}
		t, err := post.evalBool(en.E)
		if err != nil {
			vc.errs = append(vc.errs, fmt.Sprintf("%s: %v", en.Line, err))
			continue
		}
		vc.assume(cur, t)
	}
	return res
}

// letNames: the ghost constants a contract introduces with let@.
func letNames(ct *Contract) map[string]bool {
	var m map[string]bool
	for _, a := range ct.Asserts {
		if a.Kind == "let" {
			if m == nil {
				m = map[string]bool{}
			}
			m[a.Name] = true
		}
	}
	return m
}

func mentionsName(e *Expr, names map[string]bool) bool {
	if e == nil || len(names) == 0 {
		return false
	}
	if e.Op == "id" && names[e.Name] {
		return true
	}
	for _, a := range e.Args {
		if mentionsName(a, names) {
			return true
		}
	}
	return false
}

// mentionsLog reports whether a spec expression refers to the ghost call log.
func mentionsLog(e *Expr) bool {
	if e == nil {
		return false
	}
	if e.Op == "call" {
		switch {
		case e.Name == "ncalls", e.Name == "callfn", strings.HasPrefix(e.Name, "callarg"), strings.HasPrefix(e.Name, "callres"):
			return true
		}
	}
	for _, a := range e.Args {
		if mentionsLog(a) {
			return true
		}
	}
	return false
}

// logCall appends (callee, scalar arguments, scalar results) to the ghost call log.
func (f *frame) logCall(cur *State, ct *Contract, params []paramInfo, args []Sym, res []tv) {
	vc := f.vc
	n := vc.heapGet(cur, "Z:n", "Int")
	id := vc.eng.contractID(ct)
	vc.storeScalar(cur, "Z:fn", []Term{n}, "Int", id)
	for i, a := range args {
		s, ok := a.(sv)
		if !ok || i >= len(params) {
			continue
		}
		sort := vc.eng.sortOf(params[i].typ)
		if sort == "" {
			continue
		}
		vc.storeScalar(cur, fmt.Sprintf("Z:a%d:%s", i, sort), []Term{n}, sort, s.t)
	}
	for i, r := range res {
		s, ok := r.sym.(sv)
		if !ok {
			continue
		}
		sort := vc.eng.sortOf(r.typ)
		if sort == "" {
			continue
		}
		vc.storeScalar(cur, fmt.Sprintf("Z:r%d:%s", i, sort), []Term{n}, sort, s.t)
	}
	cur.heap["Z:n"] = vc.define("logn", "Int", fmt.Sprintf("(+ %s 1)", n))
}

func resultNames(t *types.Tuple) []string {
	var n []string
	for i := 0; i < t.Len(); i++ {
		n = append(n, t.At(i).Name())
	}
	return n
}

func mergeTags(a, b []string) []string {
	if len(a) == 0 {
		return b
	}
	return a
}

func (f *frame) deadResult(results *types.Tuple) Sym {
	return tuv{}
}

// raisePoint: the call at this point may raise a Lua error (leave by panic through LState.Panic).
// ct is the callee contract (nil: unknown callee, may raise always).
func (f *frame) raisePoint(cur *State, ct *Contract, sc *Scope, what string, pos token.Pos) {
	vc := f.vc
	if f.specMode || cur.dead {
		return
	}
	top := vc.ct
	if top == nil || (!top.NoRaise && top.Raises == nil) {
		return
	}
	var cond Term = "true"
	if ct != nil {
		if ct.NoRaise {
			return
		}
		if ct.Raises != nil && sc != nil {
			t, err := sc.evalBool(ct.Raises.E)
			if err == nil {
				cond = t
			}
		} else if !ct.NoReturn && ct.KeyKind == "extern" {
			return
		}
	}
	var allowed Term = "false"
	if top.Raises != nil {
		esc := vc.newScope(vc.entry, vc.entry)
		esc.vars = vc.topVars
		t, err := esc.evalBool(top.Raises.E)
		if err != nil {
			vc.errs = append(vc.errs, fmt.Sprintf("%s: %v", top.Raises.Line, err))
			return
		}
		allowed = t
	}
	goal := fmt.Sprintf("(=> %s %s)", cond, allowed)
	if cond == "true" {
		goal = allowed
	}
	vc.oblige(cur, "RAISE", f.prefix+what, goal, f.where(pos), "a Lua error can be raised here only when the contract's raises-condition held at entry")
}

func (f *frame) invoke(x *ssa.Call, cur *State) {
	vc := f.vc
	e := vc.eng
	common := x.Common()
	recvT := common.Value.Type()
	if e.isLValue(recvT) {
		v := vc.scalar(f.val(common.Value))
		switch common.Method.Name() {
		case "Type":
			if !f.specMode {
				f.safe(cur, "nil", f.srcLabel(x.Pos()), fmt.Sprintf("(not (= %s GoNil))", v), x.Pos(), "method call on nil interface")
			}
			f.env[x] = sv{vc.define("ty", "Int", fmt.Sprintf("(lvtype %s)", v))}
			return
		case "String":
			if !f.specMode {
				f.safe(cur, "nil", f.srcLabel(x.Pos()), fmt.Sprintf("(not (= %s GoNil))", v), x.Pos(), "method call on nil interface")
			}
			f.env[x] = sv{vc.define("str", "Str", fmt.Sprintf("(lvstring %s)", v))}
			return
		}
	}
	ct := e.ifaceContract(recvT, common.Method.Name())
	if ct == nil {
		f.opaqueCall(x, "interface call "+typeStr(recvT)+"."+common.Method.Name(), cur)
		return
	}
	sig := common.Method.Type().(*types.Signature)
	params := []paramInfo{{"self", recvT}}
	for i := 0; i < sig.Params().Len(); i++ {
		params = append(params, paramInfo{sig.Params().At(i).Name(), sig.Params().At(i).Type()})
	}
	args := []Sym{f.val(common.Value)}
	for _, a := range common.Args {
		args = append(args, f.val(a))
	}
	if r, ok := args[0].(sv); ok && !f.specMode {
		f.safe(cur, "nil", f.srcLabel(x.Pos()), fmt.Sprintf("(not (= %s 0))", r.t), x.Pos(), "method call on nil interface")
	}
	f.env[x] = f.applyContract(ct, ct.Key, params, args, sig.Results(), cur, x.Pos())
}

func (f *frame) builtin(x *ssa.Call, name string, cur *State) {
	vc := f.vc
	args := x.Common().Args
	switch name {
	case "len", "cap":
		switch v := f.val(args[0]).(type) {
		case slv:
			if name == "len" {
				f.env[x] = sv{v.ln}
			} else {
				f.env[x] = sv{v.cp}
			}
		case arrPtr:
			f.env[x] = sv{v.n}
		case sv:
			switch args[0].Type().Underlying().(type) {
			case *types.Basic:
				f.env[x] = sv{vc.define("len", "Int", fmt.Sprintf("(slen %s)", v.t))}
			case *types.Map:
				mk := f.mapKeys(args[0].Type().Underlying().(*types.Map))
				c := vc.define("len", "Int", fmt.Sprintf("(ite (= %s 0) 0 %s)", v.t, vc.loadScalar(cur, mk.card, []Term{v.t}, "Int")))
				vc.assume(cur, fmt.Sprintf("(>= %s 0)", c))
				f.env[x] = sv{c}
			default:
				unsup("len of %s", typeStr(args[0].Type()))
			}
		default:
			unsup("len of %T", v)
		}
	case "append":
		f.appendOp(x, cur)
	case "copy":
		f.copyOp(x, cur)
	case "delete":
		mt := args[0].Type().Underlying().(*types.Map)
		mk := f.mapKeys(mt)
		m := vc.scalar(f.val(args[0]))
		k := vc.scalar(f.val(args[1]))
		f.frameCheckKey(cur, mk.has, m, x.Pos())
		hh := vc.heapGet(cur, mk.has, mk.hasSort)
		was := vc.define("was", "Bool", fmt.Sprintf("(and (not (= %s 0)) (select (select %s %s) %s))", m, hh, m, k))
		cur.heap[mk.has] = vc.define("H_maphas", mk.hasSort, fmt.Sprintf("(ite (= %s 0) %s (store %s %s (store (select %s %s) %s false)))", m, hh, hh, m, hh, m, k))
		card := vc.loadScalar(cur, mk.card, []Term{m}, "Int")
		vc.storeScalar(cur, mk.card, []Term{m}, "Int", fmt.Sprintf("(ite %s (- %s 1) %s)", was, card, card))
		f.env[x] = tuv{}
	case "print", "println":
		f.env[x] = tuv{}
	case "recover":
		if vc.recoverNil {
			f.env[x] = sv{"0"}
		} else {
			f.env[x] = sv{vc.fresh("recovered", "Int")}
		}
	case "min", "max":
		a := vc.scalar(f.val(args[0]))
		for _, o := range args[1:] {
			b := vc.scalar(f.val(o))
			op := "<"
			if name == "max" {
				op = ">"
			}
			if vc.eng.sortOf(x.Type()) == "F64" {
				unsup("float min/max builtin")
			}
			a = vc.define(name, "Int", fmt.Sprintf("(ite (%s %s %s) %s %s)", op, a, b, a, b))
		}
		f.env[x] = sv{a}
	default:
		unsup("builtin %s", name)
	}
}

func (f *frame) elemKeySort(et types.Type) (string, string) {
	sort := f.vc.eng.sortOf(et)
	if sort == "" {
		unsup("slice element type %s in append/copy", typeStr(et))
	}
	return "E:" + typeStr(et), sort
}

func (f *frame) appendOp(x *ssa.Call, cur *State) {
	vc := f.vc
	args := x.Common().Args
	st := args[0].Type().Underlying().(*types.Slice)
	s, ok := f.val(args[0]).(slv)
	if !ok {
		unsup("append to %T", f.val(args[0]))
	}
	// append([]byte, string...) special form: the source is a string value (bytes sbyte(str, j), length slen(str))
	strSrc := Term("")
	var t slv
	if vc.eng.sortOf(args[1].Type()) == "Str" {
		strSrc = vc.scalar(f.val(args[1]))
		t = slv{"0", "0", fmt.Sprintf("(slen %s)", strSrc), "0"}
	} else {
		var ok2 bool
		t, ok2 = f.val(args[1]).(slv)
		if !ok2 {
			unsup("append of %T", f.val(args[1]))
		}
	}
	if _, isS := isStruct(st.Elem()); isS {
		unsup("append on slice of structs")
	}
	key, sort := f.elemKeySort(st.Elem())
	full := arraySort(idxSorts(2), sort)
	h := vc.heapGet(cur, key, full)
	newLen := vc.define("alen", "Int", fmt.Sprintf("(+ %s %s)", s.ln, t.ln))
	inplace := vc.define("inplace", "Bool", fmt.Sprintf("(<= %s %s)", newLen, s.cp))
	// destination array and row
	fresh := vc.allocRef(cur, "apparr")
	newCap := vc.fresh("acap", "Int")
	vc.assume(cur, fmt.Sprintf("(and (>= %s %s) (<= %s %s))", newCap, newLen, newCap, maxSliceLen))
	row := vc.fresh("arow", fmt.Sprintf("(Array Int %s)", sort))
	// row content: in place: old row of s.arr with t copied at off+len.. ; fresh: prefix copy + t at len..
	dOff := vc.define("aoff", "Int", fmt.Sprintf("(ite %s %s 0)", inplace, s.off))
	srcCell := fmt.Sprintf("(select (select %s %s) (+ %s (- j (+ %s %s))))", h, t.arr, t.off, dOff, s.ln)
	if strSrc != "" {
		srcCell = fmt.Sprintf("(sbyte %s (- j (+ %s %s)))", strSrc, dOff, s.ln)
	}
	vc.emit(fmt.Sprintf("(assert (forall ((j Int)) (! (= (select %s j) (ite (and (<= (+ %s %s) j) (< j (+ %s %s))) %s (ite %s (select (select %s %s) j) (ite (and (<= 0 j) (< j %s)) (select (select %s %s) (+ %s j)) %s)))) :pattern ((select %s j)))))",
		row, dOff, s.ln, dOff, newLen, srcCell, inplace, h, s.arr, s.ln, h, s.arr, s.off, vc.scalar(vc.zero(st.Elem())), row))
	dArr := vc.define("aarr", "Int", fmt.Sprintf("(ite %s %s %s)", inplace, s.arr, fresh))
	if !f.specMode && vc.modSet != nil && !vc.modSet.all {
		// in-place append writes into the existing backing array
		es := cur.clone()
		es.guard = and(cur.guard, inplace, fmt.Sprintf("(> %s 0)", t.ln))
		f.frameCheckKey(es, key, s.arr, x.Pos())
	}
	cur.heap[key] = vc.define("H_"+sanitize(key), full, fmt.Sprintf("(store %s %s %s)", h, dArr, row))
	f.env[x] = slv{dArr, dOff, newLen, vc.define("acap2", "Int", fmt.Sprintf("(ite %s %s %s)", inplace, s.cp, newCap))}
}

func (f *frame) copyOp(x *ssa.Call, cur *State) {
	vc := f.vc
	args := x.Common().Args
	d, ok := f.val(args[0]).(slv)
	if !ok {
		unsup("copy into %T", f.val(args[0]))
	}
	st := args[0].Type().Underlying().(*types.Slice)
	key, sort := f.elemKeySort(st.Elem())
	full := arraySort(idxSorts(2), sort)
	h := vc.heapGet(cur, key, full)
	var n Term
	row := vc.fresh("crow", fmt.Sprintf("(Array Int %s)", sort))
	switch s := f.val(args[1]).(type) {
	case slv:
		n = vc.define("ncopy", "Int", fmt.Sprintf("(ite (< %s %s) %s %s)", d.ln, s.ln, d.ln, s.ln))
		vc.emit(fmt.Sprintf("(assert (forall ((j Int)) (! (= (select %s j) (ite (and (<= %s j) (< j (+ %s %s))) (select (select %s %s) (+ %s (- j %s))) (select (select %s %s) j))) :pattern ((select %s j)))))",
			row, d.off, d.off, n, h, s.arr, s.off, d.off, h, d.arr, row))
	case sv: // copy([]byte, string)
		n = vc.define("ncopy", "Int", fmt.Sprintf("(ite (< %s (slen %s)) %s (slen %s))", d.ln, s.t, d.ln, s.t))
		vc.emit(fmt.Sprintf("(assert (forall ((j Int)) (! (= (select %s j) (ite (and (<= %s j) (< j (+ %s %s))) (sbyte %s (- j %s)) (select (select %s %s) j))) :pattern ((select %s j)))))",
			row, d.off, d.off, n, s.t, d.off, h, d.arr, row))
	default:
		unsup("copy from %T", s)
	}
	if !f.specMode && vc.modSet != nil && !vc.modSet.all {
		es := cur.clone()
		es.guard = and(cur.guard, fmt.Sprintf("(> %s 0)", n))
		f.frameCheckKey(es, key, d.arr, x.Pos())
	}
	cur.heap[key] = vc.define("H_"+sanitize(key), full, fmt.Sprintf("(store %s %s %s)", h, d.arr, row))
	f.env[x] = sv{n}
}

func (vc *VC) deferOK(d *ssa.Defer) bool { return false }

func (vc *VC) runDefers(f *frame, cur *State) {}
