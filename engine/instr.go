package main

// Instruction semantics.

import (
	"fmt"
	"go/constant"
	"go/token"
	"go/types"
	"math"
	"math/big"
	"strings"

	"golang.org/x/tools/go/ssa"
)

func float64bits(v float64) uint64 { return math.Float64bits(v) }

func (f *frame) safe(cur *State, kind, label string, goal Term, pos token.Pos, desc string) {
	if f.specMode {
		return
	}
	ct := f.vc.ct
	if ct != nil && ct.NoSafe {
		return
	}
	f.vc.oblige(cur, "SAFE", kind+"["+label+"]", goal, f.where(pos), desc)
}

func (f *frame) nonNil(cur *State, ref Term, pos token.Pos) {
	if ref == "0" {
		f.safe(cur, "nil", f.srcLabel(pos), "false", pos, "nil pointer dereference")
		return
	}
	if cur.nonnil[ref] {
		return
	}
	if strings.HasPrefix(ref, "(elemref ") {
		return
	}
	f.safe(cur, "nil", f.srcLabel(pos), fmt.Sprintf("(not (= %s 0))", ref), pos, "nil pointer dereference")
	cur.nonnil[ref] = true
}

// addrOfField computes the address of field i of the struct pointed to by x.
func (f *frame) addrOfField(cur *State, x ssa.Value, field int, pos token.Pos) Sym {
	vc := f.vc
	xs := f.val(x)
	pt := types.Unalias(x.Type()).Underlying().(*types.Pointer)
	st, _ := isStruct(pt.Elem())
	fld := st.Field(field)
	var a adv
	switch b := xs.(type) {
	case sv:
		f.nonNil(cur, b.t, pos)
		a = adv{"F:" + structName(pt.Elem()) + "." + fld.Name(), []Term{b.t}, fld.Type()}
	case adv:
		a = adv{b.base + "." + fld.Name(), b.idx, fld.Type()}
	default:
		unsup("FieldAddr on %T", xs)
	}
	_ = vc
	return a
}

func structName(t types.Type) string {
	if n := namedName(t); n != "" {
		return n
	}
	return sanitize(typeStr(t))
}

// elemAddr gives the address (or struct ref) of element abs of backing array arr with element type et.
func (f *frame) elemAddr(arr, abs Term, et types.Type) Sym {
	if _, ok := isStruct(et); ok {
		return sv{fmt.Sprintf("(elemref %s %s)", arr, abs)}
	}
	return adv{"E:" + typeStr(et), []Term{arr, abs}, et}
}

func addT(a, b Term) Term {
	if a == "0" {
		return b
	}
	if b == "0" {
		return a
	}
	return fmt.Sprintf("(+ %s %s)", a, b)
}

func (f *frame) execInstr(in ssa.Instruction, cur *State) {
	vc := f.vc
	e := vc.eng
	switch x := in.(type) {
	case *ssa.Alloc:
		et := x.Type().(*types.Pointer).Elem()
		if _, ok := isStruct(et); ok && x.Heap {
			r := vc.allocRef(cur, "new_"+x.Name())
			cur.nonnil[r] = true
			f.env[x] = sv{r}
			// zero-initialise the fields
			var ks []string
			vc.keysOfType("F:"+structName(et), et, &ks)
			z := vc.zero(et)
			vc.store(cur, adv{"F:" + structName(et), []Term{r}, et}, z)
			return
		}
		if at, ok := et.Underlying().(*types.Array); ok {
			arr := vc.allocRef(cur, "newarr_"+x.Name())
			n := fmt.Sprint(at.Len())
			f.zeroRow(cur, arr, at.Elem())
			f.env[x] = arrPtr{arr, n, at.Elem()}
			return
		}
		// scalar / slice cell: a local key
		a := adv{localKey(x), nil, et}
		vc.store(cur, a, vc.zero(et))
		f.env[x] = a
	case *ssa.FieldAddr:
		f.env[x] = f.addrOfField(cur, x.X, x.Field, x.Pos())
		// pointer to an inline array field: turn into arrPtr
		if a, ok := f.env[x].(adv); ok {
			if at, isArr := a.typ.Underlying().(*types.Array); isArr {
				f.env[x] = arrPtr{vc.inlineArr(a), fmt.Sprint(at.Len()), at.Elem()}
			} else if _, isS := isStruct(a.typ); isS && len(a.idx) == 1 && strings.HasPrefix(a.base, "F:") {
				// pointer to embedded struct stays an adv path
			}
		}
	case *ssa.Field:
		s, ok := f.val(x.X).(stv)
		if !ok {
			unsup("Field on non-struct value")
		}
		f.env[x] = s.fields[x.Field]
	case *ssa.IndexAddr:
		idx := vc.scalar(f.val(x.Index))
		switch b := f.val(x.X).(type) {
		case slv:
			f.safe(cur, "index", f.srcLabel(x.Pos()), fmt.Sprintf("(and (<= 0 %s) (< %s %s))", idx, idx, b.ln), x.Pos(), "index within slice length")
			et := x.X.Type().Underlying().(*types.Slice).Elem()
			f.env[x] = f.elemAddr(b.arr, addT(b.off, idx), et)
		case arrPtr:
			f.safe(cur, "index", f.srcLabel(x.Pos()), fmt.Sprintf("(and (<= 0 %s) (< %s %s))", idx, idx, b.n), x.Pos(), "index within array length")
			f.env[x] = f.elemAddr(b.arr, idx, b.elem)
		case adv:
			at, ok := b.typ.Underlying().(*types.Array)
			if !ok {
				unsup("IndexAddr on address of %s", typeStr(b.typ))
			}
			if _, isS := isStruct(at.Elem()); isS {
				unsup("IndexAddr on global array of structs")
			}
			f.safe(cur, "index", f.srcLabel(x.Pos()), fmt.Sprintf("(and (<= 0 %s) (< %s %d))", idx, idx, at.Len()), x.Pos(), "index within array length")
			f.env[x] = adv{b.base + "[]", append(append([]Term{}, b.idx...), idx), at.Elem()}
		default:
			unsup("IndexAddr on %T", b)
		}
	case *ssa.Index:
		idx := vc.scalar(f.val(x.Index))
		switch xt := x.X.Type().Underlying().(type) {
		case *types.Basic: // string
			s := vc.scalar(f.val(x.X))
			f.safe(cur, "index", f.srcLabel(x.Pos()), fmt.Sprintf("(and (<= 0 %s) (< %s (slen %s)))", idx, idx, s), x.Pos(), "index within string length")
			f.env[x] = sv{fmt.Sprintf("(sbyte %s %s)", s, idx)}
		case *types.Array:
			unsup("Index on array value")
			_ = xt
		default:
			unsup("Index on %s", typeStr(x.X.Type()))
		}
	case *ssa.UnOp:
		f.unop(x, cur)
	case *ssa.BinOp:
		f.env[x] = f.binop(x.Op, f.val(x.X), f.val(x.Y), x.X.Type(), x.Type(), cur, x.Pos())
	case *ssa.Store:
		a := f.val(x.Addr)
		v := f.val(x.Val)
		if r, ok := a.(sv); ok {
			if _, et, isPS := isPtrToStruct(x.Addr.Type()); isPS {
				f.nonNil(cur, r.t, x.Pos())
				a = adv{"F:" + structName(et), []Term{r.t}, et}
			}
		}
		f.storeTo(cur, a, v, x.Pos())
	case *ssa.Convert:
		f.env[x] = f.convert(x, cur)
	case *ssa.ChangeType:
		f.env[x] = f.val(x.X)
	case *ssa.ChangeInterface:
		if e.isLValue(x.X.Type()) && !e.isLValue(x.Type()) {
			f.env[x] = sv{vc.define("any", "Int", fmt.Sprintf("(lv2any %s)", vc.scalar(f.val(x.X))))}
			vc.needFun("lv2any", "(LV) Int")
		} else {
			f.env[x] = f.val(x.X)
		}
	case *ssa.MakeInterface:
		f.env[x] = f.makeInterface(x, cur)
	case *ssa.TypeAssert:
		f.typeAssert(x, cur)
	case *ssa.Extract:
		t, ok := f.val(x.Tuple).(tuv)
		if !ok {
			unsup("Extract on non-tuple")
		}
		f.env[x] = t.e[x.Index]
	case *ssa.Slice:
		f.sliceOp(x, cur)
	case *ssa.MakeSlice:
		n := vc.scalar(f.val(x.Len))
		c := vc.scalar(f.val(x.Cap))
		f.safe(cur, "makeslice", f.srcLabel(x.Pos()), fmt.Sprintf("(and (<= 0 %s) (<= %s %s))", n, n, c), x.Pos(), "make: 0 <= len <= cap")
		arr := vc.allocRef(cur, "mk_"+x.Name())
		et := x.Type().Underlying().(*types.Slice).Elem()
		f.zeroRow(cur, arr, et)
		vc.assume(cur, fmt.Sprintf("(<= %s %s)", c, maxSliceLen))
		f.env[x] = slv{arr, "0", n, c}
	case *ssa.MakeMap:
		r := vc.allocRef(cur, "map_"+x.Name())
		mt := x.Type().Underlying().(*types.Map)
		mk := f.mapKeys(mt)
		h := vc.heapGet(cur, mk.has, mk.hasSort)
		cur.heap[mk.has] = vc.define("H_maphas", mk.hasSort, fmt.Sprintf("(store %s %s ((as const (Array %s Bool)) false))", h, r, mk.ksort))
		vc.storeScalar(cur, mk.card, []Term{r}, "Int", "0")
		cur.nonnil[r] = true
		f.env[x] = sv{r}
	case *ssa.MakeClosure:
		r := vc.allocRef(cur, "closure_"+x.Name())
		f.env[x] = sv{r}
		f.closures()[r] = x
	case *ssa.MakeChan:
		f.env[x] = sv{vc.allocRef(cur, "chan_"+x.Name())}
	case *ssa.Lookup:
		f.lookup(x, cur)
	case *ssa.MapUpdate:
		f.mapUpdate(x, cur)
	case *ssa.Call:
		f.call(x, cur)
	case *ssa.Range:
		vc.abstracted = append(vc.abstracted, "range over map/string at "+f.where(x.Pos()))
		f.env[x] = sv{vc.fresh("rangeiter", "Int")}
	case *ssa.Next:
		// abstracted: any (ok, key, value)
		f.env[x] = vc.symbolic(cur, "next_"+x.Name(), x.Type(), false)
	case *ssa.Defer:
		// defer unit (DESIGN.md §4.9): the deferred closure runs at RunDefers on the normal exit (recover() == nil);
		// the panicking exit is the closure verified as its own unit under its own contract.
		switch c := x.Call.Value.(type) {
		case *ssa.MakeClosure:
			binds := make([]Sym, len(c.Bindings))
			for i, b := range c.Bindings {
				binds[i] = f.val(b)
			}
			f.defers = append(f.defers, deferred{c.Fn.(*ssa.Function), binds})
		case *ssa.Function:
			if len(x.Call.Args) == 0 {
				f.defers = append(f.defers, deferred{c, nil})
			} else {
				unsup("defer of a function with arguments in %s", f.fn.Name())
			}
		default:
			unsup("defer of %T in %s", c, f.fn.Name())
		}
	case *ssa.RunDefers:
		for i := len(f.defers) - 1; i >= 0; i-- {
			d := f.defers[i]
			if cur.dead {
				break
			}
			old := f.vc.recoverNil
			f.vc.recoverNil = true
			f.vc.noInlineLimit++
			f.inlineCall(d.fn, nil, d.binds, cur, nil)
			f.vc.noInlineLimit--
			f.vc.recoverNil = old
		}
	case *ssa.Go, *ssa.Send, *ssa.Select:
		vc.abstracted = append(vc.abstracted, fmt.Sprintf("%T at %s (heap havocked)", in, f.where(in.Pos())))
		vc.havocKeys(cur, &writeSet{all: true})
		if v, ok := in.(ssa.Value); ok {
			f.env[v] = vc.symbolic(cur, "sel", v.Type(), false)
		}
	case *ssa.SliceToArrayPointer, *ssa.MultiConvert:
		unsup("%T", in)
	default:
		unsup("instruction %T", in)
	}
}

// arrPtr is a pointer to a fixed-size array (local or inline in a struct).
type arrPtr struct {
	arr  Term
	n    string
	elem types.Type
}

func (f *frame) closures() map[Term]*ssa.MakeClosure {
	if f.vc.closureMap == nil {
		f.vc.closureMap = map[Term]*ssa.MakeClosure{}
	}
	return f.vc.closureMap
}

func (vc *VC) needFun(name, sig string) {
	k := "fun:" + name
	if vc.declared[k] {
		return
	}
	vc.declared[k] = true
	i := strings.LastIndex(sig, ")")
	vc.emit(fmt.Sprintf("(declare-fun %s %s %s)", name, sig[:i+1], strings.TrimSpace(sig[i+1:])))
}

// inlineArr returns the array id of an inline array field (injective in the owner ref).
func (vc *VC) inlineArr(a adv) Term {
	fn := "inl_" + sanitize(a.base)
	if !vc.declared["fun:"+fn] {
		vc.declared["fun:"+fn] = true
		sig := strings.TrimSpace(strings.Repeat("Int ", len(a.idx)))
		vc.emit(fmt.Sprintf("(declare-fun %s (%s) Int)", fn, sig))
		if len(a.idx) == 1 {
			vc.emit(fmt.Sprintf("(declare-fun %s_inv (Int) Int)", fn))
			vc.emit(fmt.Sprintf("(assert (forall ((r Int)) (! (and (= (%s_inv (%s r)) r) (< (%s r) 0)) :pattern ((%s r)))))", fn, fn, fn, fn))
		}
	}
	return fmt.Sprintf("(%s %s)", fn, strings.Join(a.idx, " "))
}

func (f *frame) zeroRow(cur *State, arr Term, et types.Type) {
	vc := f.vc
	if st, ok := isStruct(et); ok {
		// struct elements: fields at elemref(arr, i) are zero — stated as a quantified fact per field
		var ks []string
		vc.keysOfType("F:"+structName(et), et, &ks)
		_ = st
		for _, k := range ks {
			ft := vc.fieldTypeOfKey(et, strings.TrimPrefix(k, "F:"+structName(et)))
			sort := vc.eng.sortOf(ft)
			if sort == "" {
				sort = "Int"
			}
			full := arraySort([]string{"Int"}, sort)
			h := vc.heapGet(cur, k, full)
			nh := vc.fresh("H_"+sanitize(k), full)
			z := vc.scalar(vc.zero(scalarTypeFor(ft)))
			vc.emit(fmt.Sprintf("(assert (forall ((r Int)) (! (= (select %s r) (ite (= (elem_arr r) %s) %s (select %s r))) :pattern ((select %s r)))))", nh, arr, z, h, nh))
			cur.heap[k] = nh
		}
		return
	}
	sort := vc.eng.sortOf(et)
	if sort == "" {
		if _, ok := et.Underlying().(*types.Slice); ok {
			for _, suf := range []string{"#arr", "#off", "#len", "#cap"} {
				key := "E:" + typeStr(et) + suf
				full := arraySort(idxSorts(2), "Int")
				h := vc.heapGet(cur, key, full)
				cur.heap[key] = vc.define("H_"+sanitize(key), full, fmt.Sprintf("(store %s %s ((as const (Array Int Int)) 0))", h, arr))
			}
			return
		}
		unsup("make of slice with element type %s", typeStr(et))
	}
	key := "E:" + typeStr(et)
	full := arraySort(idxSorts(2), sort)
	h := vc.heapGet(cur, key, full)
	z := vc.scalar(vc.zero(et))
	cur.heap[key] = vc.define("H_"+sanitize(key), full, fmt.Sprintf("(store %s %s ((as const (Array Int %s)) %s))", h, arr, sort, z))
}

func scalarTypeFor(t types.Type) types.Type { return t }

func (vc *VC) fieldTypeOfKey(t types.Type, path string) types.Type {
	// path like ".f.g" or ".f#arr"
	path = strings.TrimPrefix(path, ".")
	if path == "" {
		return t
	}
	if i := strings.Index(path, "#"); i >= 0 {
		if i == 0 {
			return types.Typ[types.Int]
		}
		return types.Typ[types.Int]
	}
	name := path
	rest := ""
	if i := strings.Index(path, "."); i >= 0 {
		name = path[:i]
		rest = path[i:]
	}
	if j := strings.Index(name, "#"); j >= 0 {
		return types.Typ[types.Int]
	}
	st, ok := isStruct(t)
	if !ok {
		return types.Typ[types.Int]
	}
	for i := 0; i < st.NumFields(); i++ {
		if st.Field(i).Name() == name {
			if strings.Contains(rest, "#") && !strings.Contains(rest[1:], ".") && strings.HasPrefix(rest, "#") {
				return types.Typ[types.Int]
			}
			return vc.fieldTypeOfKey(st.Field(i).Type(), rest)
		}
	}
	return types.Typ[types.Int]
}

func (f *frame) storeTo(cur *State, a Sym, v Sym, pos token.Pos) {
	vc := f.vc
	switch ad := a.(type) {
	case adv:
		if strings.HasPrefix(ad.base, "G:") && vc.eng.db.ConstGlobals[strings.TrimPrefix(ad.base, "G:")] && !f.specMode {
			vc.oblige(cur, "FRAME", "constglobal["+f.srcLabel(pos)+"]", "false", f.where(pos), "store to a package variable declared constant")
		}
		f.frameCheck(cur, ad, pos)
		vc.store(cur, ad, v)
	case sv:
		// pointer to struct: store whole struct
		unsupIf(true, "store through struct pointer needs static type")
	default:
		unsup("store to %T", a)
	}
}

func unsupIf(c bool, msg string) {
	if c {
		unsup("%s", msg)
	}
}

func (f *frame) unop(x *ssa.UnOp, cur *State) {
	vc := f.vc
	switch x.Op {
	case token.MUL: // load
		a := f.val(x.X)
		switch ad := a.(type) {
		case adv:
			if strings.HasPrefix(ad.base, "G:") {
				if s, ok := vc.knownGlobal(ad.base); ok {
					f.env[x] = s
					return
				}
			}
			v := vc.load(cur, ad)
			f.env[x] = f.nameLoaded(x, v, cur)
		case sv:
			// *p where p points to a struct: load all fields
			if _, et, ok := isPtrToStruct(x.X.Type()); ok {
				f.nonNil(cur, ad.t, x.Pos())
				f.env[x] = vc.load(cur, adv{"F:" + structName(et), []Term{ad.t}, et})
				return
			}
			unsup("load through scalar pointer %s", typeStr(x.X.Type()))
		default:
			unsup("load from %T", a)
		}
	case token.NOT:
		f.env[x] = sv{not(vc.scalar(f.val(x.X)))}
	case token.SUB:
		t := vc.scalar(f.val(x.X))
		if vc.eng.sortOf(x.Type()) == "F64" {
			f.env[x] = sv{vc.define(x.Name(), "F64", fmt.Sprintf("(fneg %s)", t))}
		} else {
			f.env[x] = sv{vc.define(x.Name(), "Int", wrapInt(x.Type(), fmt.Sprintf("(- %s)", t)))}
		}
	case token.XOR:
		t := vc.scalar(f.val(x.X))
		bits, signed, _ := intInfo(x.Type())
		if signed {
			f.env[x] = sv{vc.define(x.Name(), "Int", fmt.Sprintf("(- (- %s) 1)", t))}
		} else {
			f.env[x] = sv{vc.define(x.Name(), "Int", fmt.Sprintf("(- %s %s)", new(big.Int).Sub(new(big.Int).Lsh(big.NewInt(1), uint(bits)), big.NewInt(1)).String(), t))}
		}
	case token.ARROW:
		vc.abstracted = append(vc.abstracted, "channel receive at "+f.where(x.Pos()))
		f.env[x] = vc.symbolic(cur, "recv", x.Type(), false)
	default:
		unsup("unary op %s", x.Op)
	}
}

// nameLoaded gives loaded scalar values their own constant and adds the type facts.
func (f *frame) nameLoaded(x *ssa.UnOp, v Sym, cur *State) Sym {
	vc := f.vc
	switch s := v.(type) {
	case sv:
		sort := vc.eng.sortOf(x.Type())
		t := vc.define(x.Name(), sort, s.t)
		if sort == "Int" {
			if _, _, ok := intInfo(x.Type()); ok {
				vc.assume(cur, rangeFact(x.Type(), t))
			}
		}
		return sv{t}
	case slv:
		n := slv{vc.define(x.Name()+"_arr", "Int", s.arr), vc.define(x.Name()+"_off", "Int", s.off), vc.define(x.Name()+"_len", "Int", s.ln), vc.define(x.Name()+"_cap", "Int", s.cp)}
		vc.assume(cur, vc.sliceFacts(cur, n))
		return n
	case stv:
		st, _ := isStruct(x.Type())
		for i, fl := range s.fields {
			if fs, ok := fl.(sv); ok && st != nil {
				if _, _, isInt := intInfo(st.Field(i).Type()); isInt && vc.eng.sortOf(st.Field(i).Type()) == "Int" {
					vc.assume(cur, rangeFact(st.Field(i).Type(), fs.t))
				}
			}
		}
		return s
	}
	return v
}

func (vc *VC) knownGlobal(base string) (Sym, bool) {
	name := strings.TrimPrefix(base, "G:")
	if vc.eng.db.ConstGlobals[name] {
		if t, ok := vc.eng.globalType(name); ok {
			if sort := vc.eng.sortOf(t); sort != "" {
				c := "cg_" + sanitize(name)
				if !vc.declared[c] {
					vc.declared[c] = true
					vc.emit(fmt.Sprintf("(declare-const %s %s)", c, sort))
					if _, isP := t.Underlying().(*types.Pointer); isP {
						vc.emit(fmt.Sprintf("(assert (and (> %s 0) (< %s %s)))", c, c, vc.entry.alloc))
					}
					if sort == "Int" {
						if v, okv := vc.eng.constGlobalInit(name); okv {
							if strings.HasPrefix(v, "-") {
								v = "(- " + v[1:] + ")"
							}
							vc.emit(fmt.Sprintf("(assert (= %s %s))", c, v))
						}
					}
				}
				return sv{c}, true
			}
			if _, isSl := t.Underlying().(*types.Slice); isSl {
				// a constant slice variable: its header never changes (its elements live in the ordinary element heap)
				c := "cg_" + sanitize(name)
				if !vc.declared[c] {
					vc.declared[c] = true
					for _, suf := range []string{"_arr", "_off", "_len", "_cap"} {
						vc.emit(fmt.Sprintf("(declare-const %s%s Int)", c, suf))
					}
					vc.emit(fmt.Sprintf("(assert (and (<= 0 %s_arr) (< %s_arr %s) (<= 0 %s_off) (<= 0 %s_len) (<= %s_len %s_cap) (<= (+ %s_off %s_cap) %s) (=> (= %s_arr 0) (= %s_cap 0))))", c, c, vc.entry.alloc, c, c, c, c, c, c, maxSliceLen, c, c))
					for _, d := range vc.eng.db.Structural {
						if d.Kind == "initvalue" && d.Name == name && (len(d.Vals) == 0 || d.Vals[len(d.Vals)-1] != "*") {
							vc.emit(fmt.Sprintf("(assert (= %s_len %d))", c, len(d.Vals)))
						}
					}
				}
				return slv{c + "_arr", c + "_off", c + "_len", c + "_cap"}, true
			}
		}
	}
	switch base {
	case "G:LNil":
		return sv{"LNilV"}, true
	case "G:LTrue": // var LTrue = LBool(true): a Go bool
		return sv{"true"}, true
	case "G:LFalse":
		return sv{"false"}, true
	}
	return nil, false
}

func isFloatT(vc *VC, t types.Type) bool { return vc.eng.sortOf(t) == "F64" }

func (f *frame) binop(op token.Token, xs, ys Sym, xt, rt types.Type, cur *State, pos token.Pos) Sym {
	vc := f.vc
	e := vc.eng
	sort := e.sortOf(xt)
	// comparisons
	switch op {
	case token.EQL, token.NEQ:
		var t Term
		switch sort {
		case "LV":
			a, b := vc.scalar(xs), vc.scalar(ys)
			if isLVConst(a) || isLVConst(b) {
				t = fmt.Sprintf("(= %s %s)", a, b)
			} else {
				t = fmt.Sprintf("(lveq %s %s)", a, b)
			}
		case "F64":
			t = fmt.Sprintf("(feq %s %s)", vc.scalar(xs), vc.scalar(ys))
		case "":
			// slices compare only to nil
			if s, ok := xs.(slv); ok {
				t = fmt.Sprintf("(= %s 0)", s.arr)
			} else if s, ok := ys.(slv); ok {
				t = fmt.Sprintf("(= %s 0)", s.arr)
			} else if sx, ok := xs.(stv); ok {
				sy := ys.(stv)
				var parts []Term
				st, _ := isStruct(xt)
				for i := range sx.fields {
					r := f.binop(token.EQL, sx.fields[i], sy.fields[i], st.Field(i).Type(), types.Typ[types.Bool], cur, pos)
					parts = append(parts, vc.scalar(r))
				}
				t = and(parts...)
			} else {
				unsup("comparison of composite values")
			}
		default:
			ax, okx := xs.(adv)
			ay, oky := ys.(adv)
			if okx || oky {
				if okx && oky && ax.base == ay.base && len(ax.idx) == len(ay.idx) {
					var parts []Term
					for i := range ax.idx {
						parts = append(parts, fmt.Sprintf("(= %s %s)", ax.idx[i], ay.idx[i]))
					}
					t = and(parts...)
				} else if okx && !oky && vc.scalar(ys) == "0" || oky && !okx && vc.scalar(xs) == "0" {
					t = "false"
				} else {
					unsup("comparison of addresses")
				}
			} else {
				t = fmt.Sprintf("(= %s %s)", vc.scalar(xs), vc.scalar(ys))
			}
		}
		if op == token.NEQ {
			t = not(t)
		}
		return sv{vc.define("c", "Bool", t)}
	case token.LSS, token.LEQ, token.GTR, token.GEQ:
		a, b := vc.scalar(xs), vc.scalar(ys)
		var t Term
		switch sort {
		case "F64":
			o := map[token.Token]string{token.LSS: "flt", token.LEQ: "fle", token.GTR: "fgt", token.GEQ: "fge"}[op]
			t = fmt.Sprintf("(%s %s %s)", o, a, b)
		case "Str":
			switch op {
			case token.LSS:
				t = fmt.Sprintf("(slt %s %s)", a, b)
			case token.GTR:
				t = fmt.Sprintf("(slt %s %s)", b, a)
			case token.LEQ:
				t = fmt.Sprintf("(not (slt %s %s))", b, a)
			case token.GEQ:
				t = fmt.Sprintf("(not (slt %s %s))", a, b)
			}
		default:
			o := map[token.Token]string{token.LSS: "<", token.LEQ: "<=", token.GTR: ">", token.GEQ: ">="}[op]
			t = fmt.Sprintf("(%s %s %s)", o, a, b)
		}
		return sv{vc.define("c", "Bool", t)}
	}
	a, b := vc.scalar(xs), vc.scalar(ys)
	switch sort {
	case "F64":
		o := map[token.Token]string{token.ADD: "fadd", token.SUB: "fsub", token.MUL: "fmul", token.QUO: "fdiv"}[op]
		if o == "" {
			unsup("float op %s", op)
		}
		return sv{vc.define("f", "F64", fmt.Sprintf("(%s %s %s)", o, a, b))}
	case "Str":
		if op == token.ADD {
			return sv{vc.define("s", "Str", fmt.Sprintf("(sconcat %s %s)", a, b))}
		}
		unsup("string op %s", op)
	case "Bool":
		switch op {
		case token.AND:
			return sv{and(a, b)}
		case token.OR:
			return sv{or(a, b)}
		}
		unsup("bool op %s", op)
	}
	// integers
	var t Term
	var resBits *big.Int
	switch op {
	case token.ADD:
		t = fmt.Sprintf("(+ %s %s)", a, b)
	case token.SUB:
		t = fmt.Sprintf("(- %s %s)", a, b)
	case token.MUL:
		t = fmt.Sprintf("(* %s %s)", a, b)
	case token.QUO:
		f.safe(cur, "div", f.srcLabel(pos), fmt.Sprintf("(not (= %s 0))", b), pos, "division by zero")
		t = quoTerm(a, b)
	case token.REM:
		f.safe(cur, "div", f.srcLabel(pos), fmt.Sprintf("(not (= %s 0))", b), pos, "division by zero")
		t = remTerm(a, b)
	case token.SHL:
		if n, ok := smallConst(b); ok {
			t = fmt.Sprintf("(* %s %s)", a, pow2(n))
			resBits = new(big.Int).And(new(big.Int).Lsh(vc.bitsOf(a, xt), uint(n)), all64)
		} else {
			t = fmt.Sprintf("(shl %s %s)", a, b)
		}
	case token.SHR:
		if n, ok := smallConst(b); ok {
			t = fmt.Sprintf("(div %s %s)", a, pow2(n))
			if _, signed, _ := intInfo(xt); !signed {
				resBits = new(big.Int).Rsh(vc.bitsOf(a, xt), uint(n))
			}
		} else {
			t = fmt.Sprintf("(shr %s %s)", a, b)
		}
	case token.AND:
		t = bitAnd(a, b)
		resBits = new(big.Int).And(vc.bitsOf(a, xt), vc.bitsOf(b, xt))
	case token.OR:
		ma, mb := vc.bitsOf(a, xt), vc.bitsOf(b, xt)
		if new(big.Int).And(ma, mb).Sign() == 0 {
			t = fmt.Sprintf("(+ %s %s)", a, b)
		} else {
			t = bitOr(a, b)
		}
		resBits = new(big.Int).Or(ma, mb)
	case token.XOR:
		t = fmt.Sprintf("(bitxor %s %s)", a, b)
	case token.AND_NOT:
		// a &^ b = a - (a & b)
		t = fmt.Sprintf("(- %s %s)", a, bitAnd(a, b))
	default:
		unsup("int op %s", op)
	}
	res := vc.define("i", "Int", wrapInt(rt, t))
	if resBits != nil {
		if bits, _, ok := intInfo(rt); ok && bits < 64 {
			resBits = new(big.Int).And(resBits, new(big.Int).Sub(new(big.Int).Lsh(big.NewInt(1), uint(bits)), big.NewInt(1)))
		}
		vc.setBits(res, resBits)
	}
	return sv{res}
}

// ---- possibly-set-bits tracking (64-bit two's complement patterns), used to turn x|y into x+y when disjoint

var all64 = new(big.Int).Sub(new(big.Int).Lsh(big.NewInt(1), 64), big.NewInt(1))

func (vc *VC) bitsOf(t Term, typ types.Type) *big.Int {
	if c, ok := bigConst(t); ok {
		if c.Sign() >= 0 {
			return c
		}
		return new(big.Int).And(new(big.Int).Add(new(big.Int).Lsh(big.NewInt(1), 64), c), all64)
	}
	if m, ok := vc.bits[t]; ok {
		return m
	}
	if bits, signed, ok := intInfo(typ); ok && !signed {
		return new(big.Int).Sub(new(big.Int).Lsh(big.NewInt(1), uint(bits)), big.NewInt(1))
	}
	return all64
}

func (vc *VC) setBits(t Term, m *big.Int) {
	if vc.bits == nil {
		vc.bits = map[Term]*big.Int{}
	}
	vc.bits[t] = m
}

func quoTerm(a, b Term) Term {
	if n, ok := bigConst(b); ok && n.Sign() > 0 {
		// truncated division by a positive constant
		return fmt.Sprintf("(ite (>= %s 0) (div %s %s) (- (div (- %s) %s)))", a, a, b, a, b)
	}
	return fmt.Sprintf("(go_quo %s %s)", a, b)
}

func remTerm(a, b Term) Term {
	if n, ok := bigConst(b); ok && n.Sign() > 0 {
		return fmt.Sprintf("(ite (>= %s 0) (mod %s %s) (- (mod (- %s) %s)))", a, a, b, a, b)
	}
	return fmt.Sprintf("(go_rem %s %s)", a, b)
}

func isLVConst(t Term) bool {
	return t == "LNilV" || t == "GoNil" || t == "(LBoolV true)" || t == "(LBoolV false)"
}

func bigConst(t Term) (*big.Int, bool) {
	s := t
	neg := false
	if strings.HasPrefix(s, "(- ") && strings.HasSuffix(s, ")") {
		s = s[3 : len(s)-1]
		neg = true
	}
	for _, c := range s {
		if c < '0' || c > '9' {
			return nil, false
		}
	}
	if s == "" {
		return nil, false
	}
	v, ok := new(big.Int).SetString(s, 10)
	if !ok {
		return nil, false
	}
	if neg {
		v.Neg(v)
	}
	return v, true
}

func smallConst(t Term) (int, bool) {
	v, ok := bigConst(t)
	if !ok || v.Sign() < 0 || v.BitLen() > 7 {
		return 0, false
	}
	return int(v.Int64()), true
}

// bitAnd encodes x & c exactly for constant c (either side); otherwise uninterpreted.
func bitAnd(a, b Term) Term {
	if _, ok := bigConst(a); ok {
		a, b = b, a
	}
	c, ok := bigConst(b)
	if !ok {
		return fmt.Sprintf("(bitand %s %s)", a, b)
	}
	if c.Sign() < 0 {
		// x & -2^k... : x & ^m  where m = -c-1 >= 0  => x - (x & m)
		m := new(big.Int).Sub(new(big.Int).Neg(c), big.NewInt(1))
		if m.Sign() == 0 {
			return a
		}
		return fmt.Sprintf("(- %s %s)", a, bitAnd(a, m.String()))
	}
	if c.Sign() == 0 {
		return "0"
	}
	// decompose c into runs of set bits [lo,hi)
	var parts []Term
	n := c.BitLen()
	i := 0
	for i < n {
		if c.Bit(i) == 0 {
			i++
			continue
		}
		j := i
		for j < n && c.Bit(j) == 1 {
			j++
		}
		// bits i..j-1
		var p Term
		if i == 0 {
			p = fmt.Sprintf("(mod %s %s)", a, pow2(j))
		} else {
			p = fmt.Sprintf("(* (mod (div %s %s) %s) %s)", a, pow2(i), pow2(j-i), pow2(i))
		}
		parts = append(parts, p)
		i = j
	}
	if len(parts) == 1 {
		return parts[0]
	}
	return "(+ " + strings.Join(parts, " ") + ")"
}

func bitOr(a, b Term) Term {
	if _, ok := bigConst(a); ok {
		a, b = b, a
	}
	if c, ok := bigConst(b); ok && c.Sign() >= 0 {
		// x | c = x + c - (x & c)
		return fmt.Sprintf("(- (+ %s %s) %s)", a, b, bitAnd(a, b))
	}
	return fmt.Sprintf("(bitor %s %s)", a, b)
}

func (f *frame) convert(x *ssa.Convert, cur *State) Sym {
	vc := f.vc
	e := vc.eng
	from, to := types.Unalias(x.X.Type()), types.Unalias(x.Type())
	fs, ts := e.sortOf(from), e.sortOf(to)
	v := f.val(x.X)
	switch {
	case fs == "Int" && ts == "Int":
		if _, _, ok := intInfo(to); ok {
			if _, _, ok2 := intInfo(from); ok2 {
				fb, fsg, _ := intInfo(from)
				tb, tsg, _ := intInfo(to)
				t := vc.scalar(v)
				// widening conversions that preserve the value need no wrap
				if (fsg == tsg && tb >= fb) || (!fsg && tsg && tb > fb) {
					if !fsg {
						if _, have := vc.bits[t]; !have {
							vc.setBits(t, vc.bitsOf(t, from))
						}
					}
					return sv{t}
				}
				if fsg && tsg && tb == 64 {
					return sv{t}
				}
				r := vc.define("cv", "Int", wrapInt(to, t))
				m := new(big.Int).And(vc.bitsOf(t, from), new(big.Int).Sub(new(big.Int).Lsh(big.NewInt(1), uint(tb)), big.NewInt(1)))
				if !tsg {
					vc.setBits(r, m)
				}
				return sv{r}
			}
		}
		return v // pointer <-> unsafe.Pointer etc.
	case fs == "Int" && ts == "F64":
		return sv{vc.define("cv", "F64", fmt.Sprintf("(i2f %s)", vc.scalar(v)))}
	case fs == "F64" && ts == "Int":
		t := vc.define("cv", "Int", fmt.Sprintf("(f2i %s)", vc.scalar(v)))
		vc.assume(cur, rangeFact(to, t))
		return sv{t}
	case fs == "F64" && ts == "F64":
		if b, ok := to.Underlying().(*types.Basic); ok && b.Kind() == types.Float32 {
			unsup("float32 conversion")
		}
		return v
	case fs == "Str" && ts == "Str":
		return v
	case ts == "Str" && fs == "Int":
		t := vc.define("cv", "Str", fmt.Sprintf("(str1 %s)", vc.scalar(v)))
		return sv{t}
	case ts == "Str" && fs == "":
		// []byte -> string
		if s, ok := v.(slv); ok {
			key := "E:uint8"
			h := vc.heapGet(cur, key, arraySort(idxSorts(2), "Int"))
			t := vc.fresh("b2s", "Str")
			vc.emit(fmt.Sprintf("(assert (= (slen %s) %s))", t, s.ln))
			vc.emit(fmt.Sprintf("(assert (forall ((i Int)) (! (=> (and (<= 0 i) (< i %s)) (= (sbyte %s i) (select (select %s %s) (+ %s i)))) :pattern ((sbyte %s i)))))", s.ln, t, h, s.arr, s.off, t))
			return sv{t}
		}
	case fs == "Str" && ts == "":
		// string -> []byte / []rune
		if sl, ok := to.Underlying().(*types.Slice); ok {
			if b, ok2 := sl.Elem().Underlying().(*types.Basic); ok2 && b.Kind() == types.Uint8 {
				s := vc.scalar(v)
				arr := vc.allocRef(cur, "s2b")
				key := "E:uint8"
				full := arraySort(idxSorts(2), "Int")
				h := vc.heapGet(cur, key, full)
				row := vc.fresh("row", "(Array Int Int)")
				vc.emit(fmt.Sprintf("(assert (forall ((i Int)) (! (=> (and (<= 0 i) (< i (slen %s))) (= (select %s i) (sbyte %s i))) :pattern ((select %s i)))))", s, row, s, row))
				cur.heap[key] = vc.define("H_E_uint8", full, fmt.Sprintf("(store %s %s %s)", h, arr, row))
				return slv{arr, "0", fmt.Sprintf("(slen %s)", s), fmt.Sprintf("(slen %s)", s)}
			}
		}
	}
	unsup("conversion %s -> %s", typeStr(from), typeStr(to))
	return nil
}

func (f *frame) makeInterface(x *ssa.MakeInterface, cur *State) Sym {
	vc := f.vc
	e := vc.eng
	if e.isLValue(x.Type()) {
		return sv{f.toLV(x.X.Type(), f.val(x.X))}
	}
	// other interfaces: pointer payloads keep their ref, LValue-implementing payloads are tagged
	src := x.X.Type()
	if _, ok := types.Unalias(src).Underlying().(*types.Pointer); ok {
		if s, ok2 := f.val(x.X).(sv); ok2 {
			vc.needFun("dyntype", "(Int) Int")
			vc.assume(cur, fmt.Sprintf("(=> (not (= %s 0)) (= (dyntype %s) %s))", s.t, s.t, vc.eng.typeID(src)))
			return s
		}
	}
	if con := e.lvCtor(src); con != "" {
		vc.needFun("lv2any", "(LV) Int")
		return sv{vc.define("any", "Int", fmt.Sprintf("(lv2any %s)", f.toLV(src, f.val(x.X))))}
	}
	if e.sortOf(src) == "Str" {
		vc.needFun("str2any", "(Str) Int")
		return sv{vc.define("any", "Int", fmt.Sprintf("(str2any %s)", vc.scalar(f.val(x.X))))}
	}
	r := vc.fresh("iface", "Int")
	vc.assume(cur, fmt.Sprintf("(not (= %s 0))", r))
	return sv{r}
}

func (vc *VC) recordDynType(ref Term, t types.Type) {}

// lvCtor returns the LV constructor for a concrete type implementing LValue ("" if none).
func (e *Engine) lvCtor(t types.Type) string {
	t = types.Unalias(t)
	if p, ok := t.(*types.Pointer); ok {
		switch namedName(p.Elem()) {
		case "LTable":
			return "LTabV"
		case "LFunction":
			return "LFnV"
		case "LUserData":
			return "LUdV"
		case "LState":
			return "LThV"
		case "LNilType":
			return "LNilV"
		}
		return ""
	}
	switch namedName(t) {
	case "LNumber":
		return "LNumV"
	case "LString":
		return "LStrV"
	case "LBool":
		return "LBoolV"
	case "LChannel":
		return "LChV"
	}
	return ""
}

func (f *frame) toLV(src types.Type, v Sym) Term {
	con := f.vc.eng.lvCtor(src)
	if con == "" {
		unsup("MakeInterface LValue from %s", typeStr(src))
	}
	if con == "LNilV" {
		return "LNilV"
	}
	t := f.vc.scalar(v)
	if con == "LBoolV" && (t == "true" || t == "false") {
		return fmt.Sprintf("(LBoolV %s)", t)
	}
	return f.vc.define("lv", "LV", fmt.Sprintf("(%s %s)", con, t))
}

var lvProj = map[string]string{"LTabV": "lvt", "LFnV": "lvf", "LUdV": "lvu", "LThV": "lvh", "LNumV": "lvn", "LStrV": "lvs", "LBoolV": "lvb", "LChV": "lvc"}

func (f *frame) typeAssert(x *ssa.TypeAssert, cur *State) {
	vc := f.vc
	e := vc.eng
	if e.isLValue(x.X.Type()) {
		v := vc.scalar(f.val(x.X))
		con := e.lvCtor(x.AssertedType)
		if con == "" {
			if e.isLValue(x.AssertedType) {
				ok := fmt.Sprintf("(not (= %s GoNil))", v)
				if x.CommaOk {
					f.env[x] = tuv{[]Sym{sv{v}, sv{ok}}}
				} else {
					f.safe(cur, "assert", f.srcLabel(x.Pos()), ok, x.Pos(), "type assertion holds")
					f.env[x] = sv{v}
				}
				return
			}
			// assertion to some other type (e.g. fmt.Stringer): abstract
			vc.abstracted = append(vc.abstracted, "type assertion to "+typeStr(x.AssertedType)+" at "+f.where(x.Pos()))
			if x.CommaOk {
				f.env[x] = tuv{[]Sym{vc.symbolic(cur, "ta", x.AssertedType, false), sv{vc.fresh("taok", "Bool")}}}
			} else {
				f.env[x] = vc.symbolic(cur, "ta", x.AssertedType, false)
			}
			return
		}
		ok := fmt.Sprintf("((_ is %s) %s)", con, v)
		var val Sym
		if con == "LNilV" {
			val = sv{"1"}
		} else {
			sort := e.sortOf(x.AssertedType)
			val = sv{vc.define("ta", sort, fmt.Sprintf("(%s %s)", lvProj[con], v))}
		}
		if x.CommaOk {
			okc := vc.define("taok", "Bool", ok)
			// Go yields the zero value when the assertion fails
			z := vc.zero(x.AssertedType)
			if zs, isS := z.(sv); isS {
				sort := e.sortOf(x.AssertedType)
				val = sv{vc.define("tav", sort, fmt.Sprintf("(ite %s %s %s)", okc, vc.scalar(val), zs.t))}
			}
			f.env[x] = tuv{[]Sym{val, sv{okc}}}
		} else {
			f.safe(cur, "assert", f.srcLabel(x.Pos()), ok, x.Pos(), "type assertion holds")
			f.env[x] = val
		}
		return
	}
	// non-LValue interfaces holding pointers: the interface value is the reference; its dynamic type is a
	// function of the reference
	if _, isPtr := types.Unalias(x.AssertedType).Underlying().(*types.Pointer); isPtr {
		if v, ok := f.val(x.X).(sv); ok {
			vc.needFun("dyntype", "(Int) Int")
			okT := vc.define("taok", "Bool", fmt.Sprintf("(and (not (= %s 0)) (= (dyntype %s) %s))", v.t, v.t, vc.eng.typeID(x.AssertedType)))
			if x.CommaOk {
				val := vc.define("tav", "Int", fmt.Sprintf("(ite %s %s 0)", okT, v.t))
				f.env[x] = tuv{[]Sym{sv{val}, sv{okT}}}
			} else {
				f.safe(cur, "assert", f.srcLabel(x.Pos()), okT, x.Pos(), "type assertion holds")
				f.env[x] = sv{v.t}
			}
			return
		}
	}
	// non-LValue interfaces: abstract the result
	vc.abstracted = append(vc.abstracted, "type assertion on "+typeStr(x.X.Type())+" at "+f.where(x.Pos()))
	if e.isLValue(x.AssertedType) || e.sortOf(x.AssertedType) != "" || true {
		if x.CommaOk {
			f.env[x] = tuv{[]Sym{vc.symbolic(cur, "ta", x.AssertedType, false), sv{vc.fresh("taok", "Bool")}}}
		} else {
			if !f.specMode {
				vc.oblige(cur, "SAFE", "assert["+f.srcLabel(x.Pos())+"]", "false", f.where(x.Pos()), "type assertion on an abstracted interface cannot be shown to hold")
			}
			f.env[x] = vc.symbolic(cur, "ta", x.AssertedType, false)
		}
	}
}

func (f *frame) sliceOp(x *ssa.Slice, cur *State) {
	vc := f.vc
	var lo, hi, mx Term
	if x.Low != nil {
		lo = vc.scalar(f.val(x.Low))
	} else {
		lo = "0"
	}
	switch b := f.val(x.X).(type) {
	case slv:
		if x.High != nil {
			hi = vc.scalar(f.val(x.High))
		} else {
			hi = b.ln
		}
		mx = b.cp
		if x.Max != nil {
			mx = vc.scalar(f.val(x.Max))
			f.safe(cur, "slice", f.srcLabel(x.Pos()), fmt.Sprintf("(and (<= 0 %s) (<= %s %s) (<= %s %s) (<= %s %s))", lo, lo, hi, hi, mx, mx, b.cp), x.Pos(), "slice bounds")
		} else {
			f.safe(cur, "slice", f.srcLabel(x.Pos()), fmt.Sprintf("(and (<= 0 %s) (<= %s %s) (<= %s %s))", lo, lo, hi, hi, b.cp), x.Pos(), "slice bounds")
		}
		f.env[x] = slv{b.arr, vc.define("off", "Int", addT(b.off, lo)), vc.define("len", "Int", fmt.Sprintf("(- %s %s)", hi, lo)), vc.define("cap", "Int", fmt.Sprintf("(- %s %s)", mx, lo))}
	case arrPtr:
		if x.High != nil {
			hi = vc.scalar(f.val(x.High))
		} else {
			hi = b.n
		}
		f.safe(cur, "slice", f.srcLabel(x.Pos()), fmt.Sprintf("(and (<= 0 %s) (<= %s %s) (<= %s %s))", lo, lo, hi, hi, b.n), x.Pos(), "slice bounds")
		f.env[x] = slv{b.arr, lo, vc.define("len", "Int", fmt.Sprintf("(- %s %s)", hi, lo)), vc.define("cap", "Int", fmt.Sprintf("(- %s %s)", b.n, lo))}
	case sv: // string
		if vc.eng.sortOf(x.X.Type()) != "Str" {
			unsup("Slice on %s", typeStr(x.X.Type()))
		}
		if x.High != nil {
			hi = vc.scalar(f.val(x.High))
		} else {
			hi = fmt.Sprintf("(slen %s)", b.t)
		}
		f.safe(cur, "slice", f.srcLabel(x.Pos()), fmt.Sprintf("(and (<= 0 %s) (<= %s %s) (<= %s (slen %s)))", lo, lo, hi, hi, b.t), x.Pos(), "string slice bounds")
		f.env[x] = sv{vc.define("sub", "Str", fmt.Sprintf("(substr %s %s %s)", b.t, lo, hi))}
	default:
		unsup("Slice on %T", b)
	}
}

type mapKeyInfo struct {
	has, val, card   string
	hasSort, valSort string
	ksort, vsort     string
	vtype            types.Type
}

func (f *frame) mapKeys(mt *types.Map) mapKeyInfo {
	e := f.vc.eng
	ks := e.sortOf(mt.Key())
	vs := e.sortOf(mt.Elem())
	if ks == "" || vs == "" {
		unsup("map with composite key/value %s", typeStr(mt))
	}
	base := "M:" + typeStr(mt.Key()) + "->" + typeStr(mt.Elem())
	return mapKeyInfo{has: base + "#has", val: base + "#val", card: base + "#card",
		hasSort: fmt.Sprintf("(Array Int (Array %s Bool))", ks), valSort: fmt.Sprintf("(Array Int (Array %s %s))", ks, vs), ksort: ks, vsort: vs, vtype: mt.Elem()}
}

func (f *frame) lookup(x *ssa.Lookup, cur *State) {
	vc := f.vc
	if mt, ok := x.X.Type().Underlying().(*types.Map); ok {
		mk := f.mapKeys(mt)
		m := vc.scalar(f.val(x.X))
		k := vc.scalar(f.val(x.Index))
		has := fmt.Sprintf("(select (select %s %s) %s)", vc.heapGet(cur, mk.has, mk.hasSort), m, k)
		// a nil map reads as empty
		hasT := vc.define("has", "Bool", fmt.Sprintf("(and (not (= %s 0)) %s)", m, has))
		val := fmt.Sprintf("(select (select %s %s) %s)", vc.heapGet(cur, mk.val, mk.valSort), m, k)
		z := vc.scalar(vc.zero(mt.Elem()))
		valT := vc.define("mv", mk.vsort, fmt.Sprintf("(ite %s %s %s)", hasT, val, z))
		if mk.vsort == "Int" {
			if _, _, ok := intInfo(mt.Elem()); ok {
				vc.assume(cur, rangeFact(mt.Elem(), valT))
			}
		}
		if x.CommaOk {
			f.env[x] = tuv{[]Sym{sv{valT}, sv{hasT}}}
		} else {
			f.env[x] = sv{valT}
		}
		return
	}
	// string index
	s := vc.scalar(f.val(x.X))
	idx := vc.scalar(f.val(x.Index))
	f.safe(cur, "index", f.srcLabel(x.Pos()), fmt.Sprintf("(and (<= 0 %s) (< %s (slen %s)))", idx, idx, s), x.Pos(), "index within string length")
	f.env[x] = sv{vc.define("sb", "Int", fmt.Sprintf("(sbyte %s %s)", s, idx))}
}

func (f *frame) mapUpdate(x *ssa.MapUpdate, cur *State) {
	vc := f.vc
	mt := x.Map.Type().Underlying().(*types.Map)
	mk := f.mapKeys(mt)
	m := vc.scalar(f.val(x.Map))
	k := vc.scalar(f.val(x.Key))
	v := vc.scalar(f.val(x.Value))
	f.safe(cur, "nilmap", f.srcLabel(x.Pos()), fmt.Sprintf("(not (= %s 0))", m), x.Pos(), "assignment to entry in nil map")
	f.frameCheckKey(cur, mk.has, m, x.Pos())
	hh := vc.heapGet(cur, mk.has, mk.hasSort)
	was := vc.define("was", "Bool", fmt.Sprintf("(select (select %s %s) %s)", hh, m, k))
	cur.heap[mk.has] = vc.define("H_maphas", mk.hasSort, fmt.Sprintf("(store %s %s (store (select %s %s) %s true))", hh, m, hh, m, k))
	hv := vc.heapGet(cur, mk.val, mk.valSort)
	cur.heap[mk.val] = vc.define("H_mapval", mk.valSort, fmt.Sprintf("(store %s %s (store (select %s %s) %s %s))", hv, m, hv, m, k, v))
	card := vc.loadScalar(cur, mk.card, []Term{m}, "Int")
	vc.storeScalar(cur, mk.card, []Term{m}, "Int", fmt.Sprintf("(ite %s %s (+ %s 1))", was, card, card))
}

func constInt(v ssa.Value) (int64, bool) {
	c, ok := v.(*ssa.Const)
	if !ok || c.Value == nil || c.Value.Kind() != constant.Int {
		return 0, false
	}
	return constant.Int64Val(c.Value)
}
